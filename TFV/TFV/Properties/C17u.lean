/-
C17u — the "search-only" slivers of property C17 (inverse trigonometric functions), closing gaps left by `C17t.lean`.

Notation as in C17t: `val t : ℚ` the exact value `hi + lo`, `rval t : ℝ` its cast.

* `asin_sliver_bound` : `1 − 2^-890 < |x| < 1` ⇒ valid result, `|asin(x) − arcsin x| ≤ 2^-100`.  There `1.0 − |x|` is a tiny
  positive pair (possibly subnormal), `/ 2.0` may round it to zero, `sqrt` is outside the range of its accuracy theorem,
  but every quantity is at most `2^-152` and `arcsin |x| = π/2 − 2·arcsin √((1 − |x|)/2)` is within `2^-443` of `π/2`.
* full-range statements `asin_abs_bound_full`, `C17_asin_abs_full`, `C17_asin_rel_full`, `acos_abs_bound_full`,
  `C17_acos_abs_full` for ALL valid `|x| ≤ 1`.
* `atan_mid_full`     : a middle interval of `atan` WITHOUT the gap condition `|x| = c ∨ ||x| − c| ≥ 2^-950`: in the gap the
  numerator `|x| − c` of the reduced argument is tiny and the long division leaves the range of its accuracy theorem, but
  `Slivers.div_tiny` shows that the quotient is a valid pair of magnitude at most `2^-921`, which is within `2^-100` of
  the exact reduced argument (itself below `2^-950`); the rest of `C17t.atan_mid` goes through (`atan_mid_tail`).
* `atan_bound_full`   : EVERY valid `|x| ≤ 2^62`: valid result within relative `2^-70` of `arctan x`.
  `atan2_bound_full`  : valid operands with high words of magnitude in `[2^-30, 2^30]`: relative `2^-69`, no condition on
  the computed quotient.  (Both proofs are those of C17t with `atan_mid_full` / `atan_bound_full` substituted.)
-/
import TFV.Lemmas.Slivers
import TFV.Properties.C17t

set_option exponentiation.threshold 3000

namespace C17u

open F64 TwoFloat PowiBound TrigBound ATrigBound C16t C16u C17t

/-! ## 1. `asin` on the sliver `1 − 2^-890 < |x| < 1` -/

theorem val_eq_V (t : TwoFloat) : val t = (t.V : ℚ) / 2 ^ 1074 := rfl

/-- the core of the large branch of `asin` on the sliver -/
theorem asin_sliver_core {x : TwoFloat} (hv : x.Valid) (hw : x.WF) (h1 : 1 - 1 / 2 ^ 890 < |val x|)
    (h2 : |val x| < 1) :
    (arithmetic.impl_Sub_rTwoFloat_for_rTwoFloat.sub consts.FRAC_PI_2
      (arithmetic.impl_Mul_rTwoFloat_for_rf64.mul (f64lit 0x4000000000000000)
        (trigonometry.restricted_asin (TwoFloat.sqrt (arithmetic.impl_Div_rf64_for_rTwoFloat.div
          (arithmetic.impl_Sub_rTwoFloat_for_rf64.sub (f64lit 0x3ff0000000000000) (TwoFloat.abs x))
          (f64lit 0x4000000000000000)))))).Valid ∧
    (arithmetic.impl_Sub_rTwoFloat_for_rTwoFloat.sub consts.FRAC_PI_2
      (arithmetic.impl_Mul_rTwoFloat_for_rf64.mul (f64lit 0x4000000000000000)
        (trigonometry.restricted_asin (TwoFloat.sqrt (arithmetic.impl_Div_rf64_for_rTwoFloat.div
          (arithmetic.impl_Sub_rTwoFloat_for_rf64.sub (f64lit 0x3ff0000000000000) (TwoFloat.abs x))
          (f64lit 0x4000000000000000)))))).WF ∧
    |rval (arithmetic.impl_Sub_rTwoFloat_for_rTwoFloat.sub consts.FRAC_PI_2
      (arithmetic.impl_Mul_rTwoFloat_for_rf64.mul (f64lit 0x4000000000000000)
        (trigonometry.restricted_asin (TwoFloat.sqrt (arithmetic.impl_Div_rf64_for_rTwoFloat.div
          (arithmetic.impl_Sub_rTwoFloat_for_rf64.sub (f64lit 0x3ff0000000000000) (TwoFloat.abs x))
          (f64lit 0x4000000000000000)))))) - Real.arcsin (|rval x|)| ≤ 1 / 2 ^ 100 := by
  obtain ⟨ha, hwa, hval⟩ := abs_facts hv hw
  set a := TwoFloat.abs x with hadef
  have haA : |val a| ≤ 2 ^ 30 := by rw [hval, _root_.abs_abs]; exact le_trans h2.le (by norm_num)
  obtain ⟨hv1, hw1, he1⟩ := one_sub_val ha hwa haA
  rw [hval] at he1
  set s1 := arithmetic.impl_Sub_rTwoFloat_for_rf64.sub (f64lit 0x3ff0000000000000) a with hs1
  -- `s1 = 1 − |x|` is a tiny positive pair
  have hz0 : 0 < 1 - |val x| := by linarith
  have hz1 : 1 - |val x| < 1 / 2 ^ 890 := by linarith
  rw [abs_of_pos hz0] at he1
  obtain ⟨e1a, e1b⟩ := abs_le.1 he1
  have hs1pos : 0 < val s1 := by
    have : (1 : ℚ) / 2 ^ 105 * (1 - |val x|) ≤ 1 / 2 * (1 - |val x|) :=
      mul_le_mul_of_nonneg_right (by norm_num) hz0.le
    linarith
  have hs1V : 0 < s1.V := V_pos_of_val_pos hs1pos
  have hs1le : s1.V ≤ 2 ^ 184 + 2 ^ 79 := by
    have h3 : |val s1| ≤ (((2 : ℤ) ^ 184 + 2 ^ 79 : ℤ) : ℚ) / 2 ^ 1074 := by
      rw [abs_of_pos hs1pos]
      have h4 : (1 : ℚ) / 2 ^ 105 * (1 - |val x|) ≤ 1 / 2 ^ 105 * (1 / 2 ^ 890) :=
        mul_le_mul_of_nonneg_left hz1.le (by positivity)
      have e : (((2 : ℤ) ^ 184 + 2 ^ 79 : ℤ) : ℚ) / 2 ^ 1074 = 1 / 2 ^ 890 + 1 / 2 ^ 105 * (1 / 2 ^ 890) := by
        norm_num
      rw [e]; linarith
    have := (abs_val_le_iff s1 _).1 h3
    rw [abs_of_pos hs1V] at this
    exact this
  -- the halving
  obtain ⟨hd, hd0, hd3⟩ := Slivers.div_two_small ⟨hv1, hw1⟩ hs1V
  set d := arithmetic.impl_Div_rf64_for_rTwoFloat.div s1 (f64lit 0x4000000000000000) with hddef
  have hdle : d.V ≤ 2 ^ 184 := by
    have t2 := le_abs_self (2 * d.V - s1.V)
    generalize |2 * d.V - s1.V| = T at *
    norm_num at hd3 hs1le ⊢
    omega
  have hdhi : d.hi.toInt ≤ 2 ^ 184 := by
    rw [hd.1.hi_toInt]
    have := rnI_mono hdle
    rwa [rnI_of_repI (TwoFloat.repI_two_pow 184)] at this
  -- the root
  obtain ⟨hv3, hw3, hq3⟩ := Slivers.sqrt_small hd.1 hd.2 hd0 hdhi
  set sq := TwoFloat.sqrt d with hsq
  have hsqv : |val sq| ≤ 1 / 2 ^ 154 := by
    have := (abs_val_le_iff sq ((2 : ℤ) ^ 920)).2 hq3
    refine le_trans this ?_
    norm_num
  have hqQ : |val sq| ≤ asinRho := le_trans hsqv (by unfold asinRho; norm_num)
  obtain ⟨hv4, hw4, he4, -⟩ := restricted_asin_real hv3 hw3 hqQ
  set ra := trigonometry.restricted_asin sq with hra
  have hsqr : |rval sq| ≤ 1 / 2 ^ 154 := by
    have := rval_le hsqv
    push_cast at this
    exact this
  have hasq : |Real.arcsin (rval sq)| ≤ 20 / 17 * |rval sq| := by
    have := arcsin_lipschitz (a := rval sq) (b := 0) (le_trans hsqr (by norm_num)) (by norm_num)
    rwa [Real.arcsin_zero, sub_zero, sub_zero] at this
  have hrar : |rval ra| ≤ 1 / 2 ^ 153 := by
    have t1 := abs_sub_abs_le_abs_sub (rval ra) (Real.arcsin (rval sq))
    have t2 : |rval sq| * (1 / 2 ^ 45 + 1 / 2 ^ 49) ≤ 1 / 2 ^ 154 * (1 / 2 ^ 45 + 1 / 2 ^ 49) :=
      mul_le_mul_of_nonneg_right hsqr (by positivity)
    have t3 : (20 : ℝ) / 17 * |rval sq| ≤ 20 / 17 * (1 / 2 ^ 154) := mul_le_mul_of_nonneg_left hsqr (by norm_num)
    have e : (1 : ℝ) / 2 ^ 154 * (1 / 2 ^ 45 + 1 / 2 ^ 49) + 1 / 2 ^ 949 + 20 / 17 * (1 / 2 ^ 154) ≤ 1 / 2 ^ 153 := by
      norm_num
    linarith
  have hraq : |val ra| ≤ 1 / 2 ^ 153 := by
    refine rval_abs_le ?_
    push_cast; exact hrar
  have hraV : |ra.V| ≤ 2 ^ 921 := by
    refine (abs_val_le_iff ra ((2 : ℤ) ^ 921)).1 (le_trans hraq ?_)
    norm_num
  have hov : ra.hi.toInt.natAbs * 2 ^ 1 ≤ maxFin := by
    obtain ⟨b1, -⟩ := hi_bounds hv4
    have hh : |ra.hi.toInt| ≤ 2 ^ 922 := by
      have := abs_nonneg ra.hi.toInt
      norm_num at b1 hraV ⊢
      omega
    have h3 : ra.hi.toInt.natAbs ≤ 2 ^ 922 := natAbs_le_of_abs_le (by push_cast; exact hh)
    calc ra.hi.toInt.natAbs * 2 ^ 1 ≤ 2 ^ 922 * 2 ^ 1 := Nat.mul_le_mul_right _ h3
      _ ≤ 2 ^ 2097 := by norm_num
      _ ≤ maxFin := two_pow_2097_le_maxFin
  -- the doubling is exact
  obtain ⟨hm2, hm2V⟩ := Slivers.two_mul_exact ⟨hv4, hw4⟩ hov
  set m2 := arithmetic.impl_Mul_rTwoFloat_for_rf64.mul (f64lit 0x4000000000000000) ra with hm2def
  have hm2val : val m2 = 2 * val ra := by
    rw [val_eq_V, val_eq_V, hm2V]; push_cast; ring
  have hm2b : |val m2| ≤ 1 / 2 ^ 152 := by
    rw [hm2val, abs_mul, abs_of_pos (by norm_num : (0 : ℚ) < 2)]
    have : (1 : ℚ) / 2 ^ 152 = 2 * (1 / 2 ^ 153) := by norm_num
    rw [this]; linarith
  obtain ⟨hvP, hwP, hP1, hP2, _⟩ := P_facts
  have hPb : |val consts.FRAC_PI_2| ≤ 2 := by
    rw [abs_of_pos (by linarith)]; linarith
  obtain ⟨hv6, hw6, he6⟩ := C16t.sub_tt_val hvP hwP hm2.1 hm2.2 (le_trans hPb (by norm_num))
    (le_trans hm2b (by norm_num))
  refine ⟨hv6, hw6, ?_⟩
  set R := arithmetic.impl_Sub_rTwoFloat_for_rTwoFloat.sub consts.FRAC_PI_2 m2 with hR
  have he6' : |val R - (val consts.FRAC_PI_2 - val m2)| ≤ 3 / 2 ^ 104 := by
    refine le_trans he6 ?_
    have h7 : |val consts.FRAC_PI_2 - val m2| ≤ 3 := by
      refine le_trans (abs_sub _ _) ?_
      have : (1 : ℚ) / 2 ^ 152 ≤ 1 := by norm_num
      linarith
    have := mul_le_mul cA_le h7 (abs_nonneg _) (by positivity)
    refine le_trans this ?_
    norm_num
  have t1 : |rval R - (rval consts.FRAC_PI_2 - rval m2)| ≤ 3 / 2 ^ 104 := by
    have := cast_abs_sub_le he6'
    unfold rval
    push_cast at this ⊢
    exact this
  have t2 := P_real_err
  have t3 : |rval m2| ≤ 1 / 2 ^ 152 := by
    have := rval_le hm2b
    push_cast at this
    exact this
  -- the exact side
  have hA1 : 1 - 1 / 2 ^ 890 < |rval x| := by
    rw [abs_rval]
    have := (Rat.cast_lt (K := ℝ)).2 h1
    push_cast at this
    rw [← Rat.cast_abs] at this
    exact this
  have hA2 : |rval x| < 1 := by
    rw [abs_rval]
    have := (Rat.cast_lt (K := ℝ)).2 h2
    push_cast at this
    rw [← Rat.cast_abs] at this
    exact this
  rw [arcsin_half_angle (x := |rval x|) (abs_nonneg _) hA2.le]
  set S := Real.sqrt ((1 - |rval x|) / 2) with hS
  have hS0 : 0 ≤ S := Real.sqrt_nonneg _
  have hS1 : S ≤ 1 / 2 ^ 445 := by
    rw [hS, Real.sqrt_le_left (by positivity)]
    have : ((1 : ℝ) / 2 ^ 445) ^ 2 = 1 / 2 ^ 890 := by norm_num
    rw [this]; linarith
  have hasS : |Real.arcsin S| ≤ 20 / 17 * (1 / 2 ^ 445) := by
    have := arcsin_lipschitz (a := S) (b := 0) (by rw [abs_of_nonneg hS0]; exact le_trans hS1 (by norm_num))
      (by norm_num)
    rw [Real.arcsin_zero, sub_zero, sub_zero, abs_of_nonneg hS0] at this
    exact le_trans this (mul_le_mul_of_nonneg_left hS1 (by norm_num))
  have e : rval R - (Real.pi / 2 - 2 * Real.arcsin S)
      = (rval R - (rval consts.FRAC_PI_2 - rval m2)) + (rval consts.FRAC_PI_2 - Real.pi / 2)
        - rval m2 + 2 * Real.arcsin S := by ring
  rw [e]
  have b1 := abs_le.1 t1
  have b2 := abs_le.1 t2
  have b3 := abs_le.1 t3
  have b5 := abs_le.1 hasS
  have num : (3 : ℝ) / 2 ^ 104 + 1 / 2 ^ 106 + 1 / 2 ^ 152 + 2 * (20 / 17 * (1 / 2 ^ 445)) ≤ 1 / 2 ^ 100 := by
    norm_num
  rw [abs_le]
  constructor <;> linarith [b1.1, b1.2, b2.1, b2.2, b3.1, b3.2, b5.1, b5.2]

/-- **C17 (asin), the sliver `1 − 2^-890 < |x| < 1`**: valid result, absolute error at most `2^-100` -/
theorem asin_sliver_bound {x : TwoFloat} (hv : x.Valid) (hw : x.WF) (h1 : 1 - 1 / 2 ^ 890 < |val x|)
    (h2 : |val x| < 1) :
    (TwoFloat.asin x).Valid ∧ |rval (TwoFloat.asin x) - Real.arcsin (rval x)| ≤ 1 / 2 ^ 100 := by
  have hiv : TwoFloat.is_valid x = true := (C07.is_valid_iff x hw).2 hv
  have hhalf : (1 : ℚ) / 2 < |val x| := by
    have : (1 : ℚ) / 2 ^ 890 ≤ 1 / 2 := by norm_num
    linarith
  have h1b : ROrd.isGt (base.impl_PartialOrd_f64_for_TwoFloat.partial_cmp (TwoFloat.abs x)
      (f64lit 0x3ff0000000000000)) = false :=
    Bool.eq_false_iff.2 (fun h => absurd ((cmp_one hv hw).1 h) (not_lt.2 h2.le))
  have h2b : ROrd.isLe (base.impl_PartialOrd_f64_for_TwoFloat.partial_cmp (TwoFloat.abs x)
      (f64lit 0x3fe0000000000000)) = false :=
    Bool.eq_false_iff.2 (fun h => absurd ((cmp_half hv hw).1 h) (not_le.2 hhalf))
  obtain ⟨hvR, hwR, heR⟩ := asin_sliver_core hv hw h1 h2
  rw [asin_large_eq x hiv h1b h2b]
  have hV0 : x.V ≠ 0 := by
    intro h0
    have : val x = 0 := by unfold val; rw [h0]; simp
    rw [this, abs_zero] at hhalf
    norm_num at hhalf
  cases hs : TwoFloat.is_sign_positive x
  · have hneg : ¬ (0 < x.V) := fun h => by
      have := (C06.is_sign_positive_exact hiv hv hV0).2 h
      rw [hs] at this; exact Bool.false_ne_true this
    have hrn : rval x < 0 := by
      have h3 : ¬ (0 < rval x) := fun h => hneg ((rval_pos_iff x).1 h)
      have h4 : rval x ≠ 0 := by
        intro h0
        unfold rval at h0
        have : val x = 0 := by exact_mod_cast h0
        rw [this, abs_zero] at hhalf
        norm_num at hhalf
      exact lt_of_le_of_ne (not_lt.1 h3) h4
    simp only [Bool.false_eq_true, if_false]
    refine ⟨neg_valid hvR hwR, ?_⟩
    rw [rval_neg]
    rw [abs_of_neg hrn, Real.arcsin_neg] at heR
    rw [← abs_neg]
    refine le_trans (le_of_eq ?_) heR
    congr 1; ring
  · have hpos := (C06.is_sign_positive_exact hiv hv hV0).1 hs
    have hrp := (rval_pos_iff x).2 hpos
    simp only [if_true]
    rw [abs_of_pos hrp] at heR
    exact ⟨hvR, heR⟩

/-! ## 2. full-range statements, `|x| ≤ 1` -/

theorem V_of_abs_val_one {x : TwoFloat} (h : |val x| = 1) : |x.V| = (unit : Int) := by
  rw [abs_val] at h
  have h2 : (((|x.V| : Int)) : ℚ) = ((2 : ℤ) ^ 1074 : ℤ) := by
    rw [div_eq_one_iff_eq (by positivity)] at h
    rw [h]; push_cast; rfl
  have h3 : |x.V| = (2 : ℤ) ^ 1074 := by exact_mod_cast h2
  rw [h3, C01d.unit_int_eq]

/-- **C17, asin, absolute, ALL valid `|x| ≤ 1`**: valid result, `|asin(x) − arcsin x| ≤ 23·2^-50 < 2^-45` -/
theorem asin_abs_bound_full {x : TwoFloat} (hv : x.Valid) (hw : x.WF) (hx : |val x| ≤ 1) :
    (TwoFloat.asin x).Valid ∧ |rval (TwoFloat.asin x) - Real.arcsin (rval x)| ≤ 23 / 2 ^ 50 := by
  by_cases h1 : |val x| ≤ 1 - 1 / 2 ^ 890
  · exact asin_abs_bound hv hw h1
  · rcases eq_or_lt_of_le hx with h2 | h2
    · obtain ⟨a, b, -, -⟩ := asin_acos_at_one hv (V_of_abs_val_one h2)
      exact ⟨a, le_trans b (by norm_num)⟩
    · obtain ⟨a, b⟩ := asin_sliver_bound hv hw (not_le.1 h1) h2
      exact ⟨a, le_trans b (by norm_num)⟩

theorem C17_asin_abs_full {x : TwoFloat} (hv : x.Valid) (hw : x.WF) (hx : |val x| ≤ 1) :
    |rval (TwoFloat.asin x) - Real.arcsin (rval x)| ≤ 1 / 2 ^ 45 :=
  le_trans (asin_abs_bound_full hv hw hx).2 (by norm_num)

/-- **C17, asin, relative, ALL valid `|x| ≤ 1`**: `|asin(x) − arcsin x| ≤ 2^-43·|arcsin x|` -/
theorem C17_asin_rel_full {x : TwoFloat} (hv : x.Valid) (hw : x.WF) (hx : |val x| ≤ 1) :
    |rval (TwoFloat.asin x) - Real.arcsin (rval x)| ≤ 1 / 2 ^ 43 * |Real.arcsin (rval x)| := by
  by_cases h1 : |val x| ≤ 1 - 1 / 2 ^ 890
  · exact C17_asin_rel hv hw h1
  · have hlo : 1 - 1 / 2 ^ 890 < |val x| := not_le.1 h1
    have hr1 : |rval x| ≤ 1 := by have := rval_le hx; push_cast at this; exact this
    have hge := abs_le_abs_arcsin hr1
    have hr : (1 : ℝ) / 2 ≤ |rval x| := by
      rw [abs_rval]
      have h5 : ((1 / 2 : ℚ) : ℝ) ≤ ((|val x| : ℚ) : ℝ) := by
        apply (Rat.cast_le (K := ℝ)).2
        have : (1 : ℚ) / 2 ^ 890 ≤ 1 / 2 := by norm_num
        linarith
      push_cast at h5
      rw [← Rat.cast_abs] at h5
      exact h5
    have h4 := mul_le_mul_of_nonneg_left (le_trans hr hge) (by positivity : (0 : ℝ) ≤ 1 / 2 ^ 43)
    have hb : |rval (TwoFloat.asin x) - Real.arcsin (rval x)| ≤ 1 / 2 ^ 100 := by
      rcases eq_or_lt_of_le hx with h2 | h2
      · obtain ⟨-, b, -, -⟩ := asin_acos_at_one hv (V_of_abs_val_one h2)
        exact le_trans b (by norm_num)
      · exact (asin_sliver_bound hv hw hlo h2).2
    have : (1 : ℝ) / 2 ^ 100 ≤ 1 / 2 ^ 43 * (1 / 2) := by norm_num
    linarith

/-- `acos` from `asin`: valid `asin(x)` within `23·2^-50` of `arcsin x` ⇒ valid `acos(x)` within `24·2^-50` of `arccos x` -/
theorem acos_of_asin {x : TwoFloat} (hvA : (TwoFloat.asin x).Valid)
    (heA : |rval (TwoFloat.asin x) - Real.arcsin (rval x)| ≤ 23 / 2 ^ 50) :
    (TwoFloat.acos x).Valid ∧ |rval (TwoFloat.acos x) - Real.arccos (rval x)| ≤ 24 / 2 ^ 50 := by
  have hwA := C17p.asin_WF x
  have hivA : TwoFloat.is_valid (TwoFloat.asin x) = true := (C07.is_valid_iff _ hwA).2 hvA
  rw [C17.acos_eq x hivA]
  obtain ⟨hvP, hwP, hP1, hP2, _⟩ := P_facts
  have hPb : |val consts.FRAC_PI_2| ≤ 2 := by
    rw [abs_of_pos (by linarith)]; linarith
  have hasb : |Real.arcsin (rval x)| ≤ 2 := by
    rw [abs_le]
    have := Real.arcsin_le_pi_div_two (rval x)
    have := Real.neg_pi_div_two_le_arcsin (rval x)
    have := Real.pi_le_four
    constructor <;> linarith
  have hAr : |rval (TwoFloat.asin x)| ≤ 3 := by
    have := abs_add_le (rval (TwoFloat.asin x) - Real.arcsin (rval x)) (Real.arcsin (rval x))
    rw [sub_add_cancel] at this
    have : (23 : ℝ) / 2 ^ 50 ≤ 1 := by norm_num
    linarith
  have hAq : |val (TwoFloat.asin x)| ≤ 3 := by
    refine rval_abs_le ?_
    push_cast; exact hAr
  obtain ⟨hv6, _, he6⟩ := C16t.sub_tt_val hvP hwP hvA hwA (le_trans hPb (by norm_num)) (le_trans hAq (by norm_num))
  refine ⟨hv6, ?_⟩
  have he6' : |val (arithmetic.impl_Sub_rTwoFloat_for_rTwoFloat.sub consts.FRAC_PI_2 (TwoFloat.asin x))
      - (val consts.FRAC_PI_2 - val (TwoFloat.asin x))| ≤ 5 / 2 ^ 104 := by
    refine le_trans he6 ?_
    have h7 : |val consts.FRAC_PI_2 - val (TwoFloat.asin x)| ≤ 5 := le_trans (abs_sub _ _) (by linarith)
    have := mul_le_mul cA_le h7 (abs_nonneg _) (by positivity)
    refine le_trans this ?_
    norm_num
  have t1 : |rval (arithmetic.impl_Sub_rTwoFloat_for_rTwoFloat.sub consts.FRAC_PI_2 (TwoFloat.asin x))
      - (rval consts.FRAC_PI_2 - rval (TwoFloat.asin x))| ≤ 5 / 2 ^ 104 := by
    have := cast_abs_sub_le he6'
    unfold rval
    push_cast at this ⊢
    exact this
  have t2 := P_real_err
  rw [Real.arccos_eq_pi_div_two_sub_arcsin]
  show |rval (arithmetic.impl_Sub_rTwoFloat_for_rTwoFloat.sub consts.FRAC_PI_2 (TwoFloat.asin x))
      - (Real.pi / 2 - Real.arcsin (rval x))| ≤ 24 / 2 ^ 50
  have b1 := abs_le.1 t1
  have b2 := abs_le.1 t2
  have b3 := abs_le.1 heA
  have num : (5 : ℝ) / 2 ^ 104 + 1 / 2 ^ 106 + 23 / 2 ^ 50 ≤ 24 / 2 ^ 50 := by norm_num
  rw [abs_le]
  constructor <;> linarith [b1.1, b1.2, b2.1, b2.2, b3.1, b3.2]

/-- **C17 (acos), ALL valid `|x| ≤ 1`**: valid result, `|acos(x) − arccos x| ≤ 24·2^-50 < 2^-45` -/
theorem acos_abs_bound_full {x : TwoFloat} (hv : x.Valid) (hw : x.WF) (hx : |val x| ≤ 1) :
    (TwoFloat.acos x).Valid ∧ |rval (TwoFloat.acos x) - Real.arccos (rval x)| ≤ 24 / 2 ^ 50 := by
  obtain ⟨a, b⟩ := asin_abs_bound_full hv hw hx
  exact acos_of_asin a b

theorem C17_acos_abs_full {x : TwoFloat} (hv : x.Valid) (hw : x.WF) (hx : |val x| ≤ 1) :
    |rval (TwoFloat.acos x) - Real.arccos (rval x)| ≤ 1 / 2 ^ 45 :=
  le_trans (acos_abs_bound_full hv hw hx).2 (by norm_num)

/-! ## 3. `atan` next to the reduction centres `1/2, 1, 3/2` -/

/-- the tail of `C17t.atan_mid`, from the computed quotient `q` on: all that is needed about `q` is that it is a valid
pair within `2^-100` of the exact reduced argument `t = (a − c)/(1 + c·a)` -/
theorem atan_mid_tail {a q Cc : TwoFloat} {c : ℚ} (hc0 : 0 ≤ c) (ha0 : 0 ≤ val a)
    (hvq : q.Valid) (hwq : q.WF) (hqt' : |val q - (val a - c) / (1 + c * val a)| ≤ 1 / 2 ^ 100)
    (ht : |(val a - c) / (1 + c * val a)| ≤ 2 / 5)
    (hvC : Cc.Valid) (hwC : Cc.WF) (hC : |rval Cc - Real.arctan (c : ℝ)| ≤ 1 / 2 ^ 100) (hCb : |val Cc| ≤ 2) :
    (arithmetic.impl_Add_rTwoFloat_for_rTwoFloat.add Cc (trigonometry.restricted_atan q)).Valid ∧
    |rval (arithmetic.impl_Add_rTwoFloat_for_rTwoFloat.add Cc (trigonometry.restricted_atan q))
      - Real.arctan (rval a)| ≤ 1 / 2 ^ 73 := by
  set t := (val a - c) / (1 + c * val a) with htdef
  have hqb : |val q| ≤ 41 / 100 := by
    have := abs_add_le (val q - t) t
    rw [sub_add_cancel] at this
    have : (1 : ℚ) / 2 ^ 100 ≤ 1 / 100 := by norm_num
    linarith
  obtain ⟨hvr, hwr, her⟩ := restricted_atan_rel hvq hwq (le_trans hqb (by unfold atanRho; norm_num))
  set ra := trigonometry.restricted_atan q with hradef
  have hqbR : |rval q| ≤ 41 / 100 := by have := rval_le hqb; push_cast at this; exact this
  have her' : |rval ra - Real.arctan (rval q)| ≤ 41 / 100 * (1 / 2 ^ 72 + 1 / 2 ^ 83) :=
    le_trans her (mul_le_mul_of_nonneg_right hqbR (by positivity))
  have hatq : |Real.arctan (rval q)| ≤ 1 / 2 := by
    have := arctan_lipschitz (rval q) 0
    rw [Real.arctan_zero, sub_zero, sub_zero] at this
    linarith
  have hrab : |val ra| ≤ 1 := by
    refine rval_abs_le ?_
    push_cast
    have := abs_add_le (rval ra - Real.arctan (rval q)) (Real.arctan (rval q))
    rw [sub_add_cancel] at this
    have : (41 : ℝ) / 100 * (1 / 2 ^ 72 + 1 / 2 ^ 83) ≤ 1 / 2 := by norm_num
    linarith
  obtain ⟨hvs, _, hes⟩ := add_tt_val hvC hwC hvr hwr (le_trans hCb (by norm_num)) (le_trans hrab (by norm_num))
  refine ⟨hvs, ?_⟩
  have hes' : |val (arithmetic.impl_Add_rTwoFloat_for_rTwoFloat.add Cc ra) - (val Cc + val ra)| ≤ 3 / 2 ^ 104 := by
    refine le_trans hes ?_
    have h3 : |val Cc + val ra| ≤ 3 := le_trans (abs_add_le _ _) (by linarith)
    have := mul_le_mul cA_le h3 (abs_nonneg _) (by positivity)
    refine le_trans this ?_
    norm_num
  have t1 : |rval (arithmetic.impl_Add_rTwoFloat_for_rTwoFloat.add Cc ra) - (rval Cc + rval ra)| ≤ 3 / 2 ^ 104 := by
    have := cast_abs_sub_le hes'
    unfold rval
    push_cast at this ⊢
    exact this
  have t4 : |Real.arctan (rval q) - Real.arctan ((t : ℚ) : ℝ)| ≤ 1 / 2 ^ 100 := by
    refine le_trans (arctan_lipschitz _ _) ?_
    have := cast_abs_sub_le hqt'
    unfold rval
    push_cast at this ⊢
    exact this
  have hid := arctan_sub_const (x := rval a) (c := (c : ℝ))
    (by unfold rval; exact_mod_cast ha0) (by exact_mod_cast hc0)
  have etr : ((t : ℚ) : ℝ) = (rval a - (c : ℝ)) / (1 + (c : ℝ) * rval a) := by
    rw [htdef]; unfold rval; push_cast; rfl
  rw [hid, ← etr]
  have e : rval (arithmetic.impl_Add_rTwoFloat_for_rTwoFloat.add Cc ra)
        - (Real.arctan (c : ℝ) + Real.arctan ((t : ℚ) : ℝ))
      = (rval (arithmetic.impl_Add_rTwoFloat_for_rTwoFloat.add Cc ra) - (rval Cc + rval ra))
        + (rval Cc - Real.arctan (c : ℝ)) + (rval ra - Real.arctan (rval q))
        + (Real.arctan (rval q) - Real.arctan ((t : ℚ) : ℝ)) := by ring
  rw [e]
  have b1 := abs_le.1 t1
  have b2 := abs_le.1 hC
  have b3 := abs_le.1 her'
  have b4 := abs_le.1 t4
  have num : (3 : ℝ) / 2 ^ 104 + 1 / 2 ^ 100 + 41 / 100 * (1 / 2 ^ 72 + 1 / 2 ^ 83) + 1 / 2 ^ 100 ≤ 1 / 2 ^ 73 := by
    norm_num
  rw [abs_le]
  constructor <;> linarith [b1.1, b1.2, b2.1, b2.2, b3.1, b3.2, b4.1, b4.2]

/-- **a middle interval of `atan`, WITHOUT the gap condition**: when `0 < |a − c| < 2^-950` the numerator `N ≈ a − c` is
tiny, the long division is outside the range of its accuracy theorem, but the quotient is a valid pair of magnitude at
most `2^-921` (`Slivers.div_tiny`) and the exact reduced argument is below `2^-950`: both are within `2^-100` -/
theorem atan_mid_full {a N D Cc : TwoFloat} {c : ℚ} (hc0 : 0 ≤ c) (hc2 : c ≤ 2) (ha0 : 0 ≤ val a) (ha4 : val a ≤ 4)
    (hvN : N.Valid) (hwN : N.WF) (heN : |val N - (val a - c)| ≤ 1 / 2 ^ 105 * |val a - c|)
    (hvD : D.Valid) (hwD : D.WF) (heD : |val D - (1 + c * val a)| ≤ 1 / 2 ^ 103 * |1 + c * val a|)
    (ht : |(val a - c) / (1 + c * val a)| ≤ 2 / 5)
    (hvC : Cc.Valid) (hwC : Cc.WF) (hC : |rval Cc - Real.arctan (c : ℝ)| ≤ 1 / 2 ^ 100) (hCb : |val Cc| ≤ 2) :
    (arithmetic.impl_Add_rTwoFloat_for_rTwoFloat.add Cc
      (trigonometry.restricted_atan (arithmetic.impl_Div_rTwoFloat_for_rTwoFloat.div N D))).Valid ∧
    |rval (arithmetic.impl_Add_rTwoFloat_for_rTwoFloat.add Cc
      (trigonometry.restricted_atan (arithmetic.impl_Div_rTwoFloat_for_rTwoFloat.div N D)))
      - Real.arctan (rval a)| ≤ 1 / 2 ^ 73 := by
  by_cases h0 : val a = c
  · exact atan_mid hc0 hc2 ha0 ha4 hvN hwN heN hvD hwD heD (Or.inl h0) ht hvC hwC hC hCb
  by_cases hg : 1 / 2 ^ 950 ≤ |val a - c|
  · exact atan_mid hc0 hc2 ha0 ha4 hvN hwN heN hvD hwD heD (Or.inr hg) ht hvC hwC hC hCb
  have hsm : |val a - c| < 1 / 2 ^ 950 := not_le.1 hg
  have hp : 0 < 1 + c * val a := by positivity
  have hp1 : 1 ≤ 1 + c * val a := by nlinarith
  -- the denominator
  have hDlo : 1 / 2 ≤ val D ∧ val D ≤ 10 := by
    rw [abs_of_pos hp] at heD
    obtain ⟨l, u⟩ := abs_le.1 heD
    have h1 : 1 + c * val a ≤ 9 := by nlinarith
    have h3 : 1 / 2 ^ 103 * (1 + c * val a) ≤ 1 / 2 ^ 103 * 9 := mul_le_mul_of_nonneg_left h1 (by positivity)
    have : (1 : ℚ) / 2 ^ 103 * 9 ≤ 1 / 2 := by norm_num
    constructor <;> linarith
  have hDabs : |val D| = val D := abs_of_pos (by linarith [hDlo.1])
  have hDV1 : (2 : ℤ) ^ 1073 ≤ |D.V| := by
    have h1 : (((2 : ℤ) ^ 1073 : ℤ) : ℚ) / 2 ^ 1074 ≤ |val D| := by
      rw [hDabs]
      have e : (((2 : ℤ) ^ 1073 : ℤ) : ℚ) / 2 ^ 1074 = 1 / 2 := by norm_num
      rw [e]; exact hDlo.1
    rw [abs_val, div_le_div_iff_of_pos_right (by positivity)] at h1
    exact_mod_cast h1
  have hDV2 : |D.V| ≤ 10 * 2 ^ 1074 := by
    refine (abs_val_le_iff D (10 * 2 ^ 1074)).1 ?_
    rw [hDabs]
    have e : (((10 * 2 ^ 1074 : ℤ)) : ℚ) / 2 ^ 1074 = 10 := by norm_num
    rw [e]; exact hDlo.2
  obtain ⟨bD1, bD2⟩ := hi_bounds hvD
  have hDh1 : (2 : ℤ) ^ 1072 ≤ |D.hi.toInt| := by
    have := abs_nonneg D.hi.toInt
    norm_num at bD2 hDV1 ⊢
    omega
  have hDh2 : |D.hi.toInt| ≤ (2 : ℤ) ^ 1078 := by
    have := abs_nonneg D.hi.toInt
    norm_num at bD1 hDV2 ⊢
    omega
  -- the numerator
  have hNv : |val N| ≤ 1 / 2 ^ 949 := by
    have := abs_add_le (val N - (val a - c)) (val a - c)
    rw [sub_add_cancel] at this
    have h4 : 1 / 2 ^ 105 * |val a - c| ≤ 1 * |val a - c| :=
      mul_le_mul_of_nonneg_right (by norm_num) (abs_nonneg _)
    have e : (1 : ℚ) / 2 ^ 949 = 2 * (1 / 2 ^ 950) := by norm_num
    rw [e]; linarith
  have hNV : |N.V| ≤ 2 ^ 125 := by
    refine (abs_val_le_iff N ((2 : ℤ) ^ 125)).1 (le_trans hNv ?_)
    norm_num
  obtain ⟨bN1, -⟩ := hi_bounds hvN
  have hNh : |N.hi.toInt| ≤ (2 : ℤ) ^ 127 := by
    have := abs_nonneg N.hi.toInt
    norm_num at bN1 hNV ⊢
    omega
  obtain ⟨hvq, hqb⟩ := Slivers.div_tiny hvN hwN hvD hwD hNh hDh1 hDh2
  have hwq := TwoFloat.div_tt_WF N D
  have hqv : |val (arithmetic.impl_Div_rTwoFloat_for_rTwoFloat.div N D)| ≤ 1 / 2 ^ 921 := by
    refine le_trans ((abs_val_le_iff _ ((2 : ℤ) ^ 153)).2 hqb) ?_
    norm_num
  have htv : |(val a - c) / (1 + c * val a)| ≤ 1 / 2 ^ 950 := by
    rw [abs_div, abs_of_pos hp, div_le_iff₀ hp]
    have : (1 : ℚ) / 2 ^ 950 * 1 ≤ 1 / 2 ^ 950 * (1 + c * val a) := mul_le_mul_of_nonneg_left hp1 (by positivity)
    linarith
  have hqt' : |val (arithmetic.impl_Div_rTwoFloat_for_rTwoFloat.div N D) - (val a - c) / (1 + c * val a)|
      ≤ 1 / 2 ^ 100 := by
    refine le_trans (abs_sub _ _) ?_
    have e : (1 : ℚ) / 2 ^ 921 + 1 / 2 ^ 950 ≤ 1 / 2 ^ 100 := by norm_num
    linarith
  exact atan_mid_tail hc0 ha0 hvq hwq hqt' ht hvC hwC hC hCb

/-- **C17 (atan), WITHOUT the gap condition**: for EVERY valid well-formed `x` with `|x| ≤ 2^62` the result is a valid
pair within relative `2^-70` of `arctan x` (the proof is that of `C17t.atan_bound` with `atan_mid_full`) -/
theorem atan_bound_full {x : TwoFloat} (hv : x.Valid) (hw : x.WF) (hx : |val x| ≤ 2 ^ 62) :
    (TwoFloat.atan x).Valid ∧
    |rval (TwoFloat.atan x) - Real.arctan (rval x)| ≤ 1 / 2 ^ 70 * |Real.arctan (rval x)| := by
  have hiv : TwoFloat.is_valid x = true := (C07.is_valid_iff x hw).2 hv
  have hfin : F64.is_infinite x.hi = false := by
    have := hv.1
    cases hh : x.hi with
    | nan => simp [hh, F64.is_finite] at this
    | inf s => simp [hh, F64.is_finite] at this
    | fin s n => rfl
  rw [atan_eq x hiv hfin]
  obtain ⟨hvk, hek⟩ := atan_k hv hw hx
  set k := arithmetic.impl_Add_rf64_for_rTwoFloat.add
    (arithmetic.impl_Mul_rTwoFloat_for_rf64.mul (f64lit 0x4010000000000000) (TwoFloat.abs x))
    (f64lit 0x3fd0000000000000) with hk
  obtain ⟨hva, hwa, hval⟩ := abs_facts hv hw
  set a := TwoFloat.abs x with hadef
  have hA0 : 0 ≤ |val x| := abs_nonneg _
  have hrva : rval a = |rval x| := by
    rw [abs_rval]; unfold rval; rw [hval]
  by_cases b0 : ROrd.isLe (base.impl_PartialOrd_f64_for_TwoFloat.partial_cmp k (f64lit 0x4000000000000000)) = true
  · simp only [b0, if_true]
    have hk2 := (cmp_le_lit hvk two_facts.2.1 two_facts.1).1 b0
    rw [fval_two] at hk2
    have hE := (thr hek (by norm_num : (2 : ℚ) ≤ 16)).1 hk2
    have hA : |val x| ≤ atanRho := by
      unfold atanRho
      have : (1 : ℚ) / 2 ^ 100 ≤ 4 * (1 / 2 ^ 20) := by norm_num
      linarith
    obtain ⟨hvr, _, her⟩ := restricted_atan_rel hv hw hA
    refine ⟨hvr, le_trans her ?_⟩
    have hge := abs_arctan_ge (rval_le hA)
    have h1 : |rval x| * (1 / 2 ^ 72 + 1 / 2 ^ 83) ≤ 1 / 2 ^ 70 * (9 / 10 * |rval x|) := by
      have : (1 : ℝ) / 2 ^ 72 + 1 / 2 ^ 83 ≤ 1 / 2 ^ 70 * (9 / 10) := by norm_num
      have := mul_le_mul_of_nonneg_left this (abs_nonneg (rval x))
      linarith
    have h2 := mul_le_mul_of_nonneg_left hge (by positivity : (0 : ℝ) ≤ 1 / 2 ^ 70)
    linarith
  · have b0' : ROrd.isLe (base.impl_PartialOrd_f64_for_TwoFloat.partial_cmp k (f64lit 0x4000000000000000)) = false := by
      simpa using b0
    simp only [b0', Bool.false_eq_true, if_false]
    have hk2 : (2 : ℚ) ≤ val k := by
      have := mt (cmp_le_lit hvk two_facts.2.1 two_facts.1).2 b0
      rw [fval_two] at this
      exact (not_le.1 this).le
    have hE0 := (thr hek (by norm_num : (2 : ℚ) ≤ 16)).2 hk2
    have hAlo : 43 / 100 ≤ |val x| := by
      have : (1 : ℚ) / 2 ^ 100 ≤ 1 / 100 := by norm_num
      linarith
    have hV0 : x.V ≠ 0 := by
      intro h0
      have : val x = 0 := by unfold val; rw [h0]; simp
      rw [this, abs_zero] at hAlo
      norm_num at hAlo
    have hAloR : (43 : ℝ) / 100 ≤ |rval x| := by
      rw [abs_rval]
      have := cast_le_real hAlo
      push_cast at this
      rw [← Rat.cast_abs] at this
      exact this
    -- every branch ends the same way
    have fin : ∀ res : TwoFloat, res.Valid → res.WF → |rval res - Real.arctan (|rval x|)| ≤ 1 / 2 ^ 73 →
        (if TwoFloat.is_sign_positive x then res else arithmetic.impl_Neg_for_TwoFloat.neg res).Valid ∧
        |rval (if TwoFloat.is_sign_positive x then res else arithmetic.impl_Neg_for_TwoFloat.neg res)
          - Real.arctan (rval x)| ≤ 1 / 2 ^ 70 * |Real.arctan (rval x)| := by
      intro res h1 h2 h3
      obtain ⟨g1, g2⟩ := sign_wrap hv hw hV0 h1 h2 h3
      refine ⟨g1, le_trans g2 ?_⟩
      rw [abs_arctan]
      have := arctan_ge_quarter hAloR
      have := mul_le_mul_of_nonneg_left this (by positivity : (0 : ℝ) ≤ 1 / 2 ^ 70)
      refine le_trans ?_ this
      norm_num
    by_cases b1 : ROrd.isLt (base.impl_PartialOrd_f64_for_TwoFloat.partial_cmp k (f64lit 0x4008000000000000)) = true
    · simp only [b1, if_true]
      have hk3 := (cmp_lt_lit hvk three_lit.2.1 three_lit.1).1 b1
      rw [fval_three] at hk3
      have hE3 := (thr hek (by norm_num : (3 : ℚ) ≤ 16)).1 hk3.le
      have hAhi : |val x| ≤ 7 / 10 := by
        have : (1 : ℚ) / 2 ^ 100 ≤ 1 / 100 := by norm_num
        linarith
      have ha0 : 0 ≤ val a := by rw [hval]; exact hA0
      have ha4 : val a ≤ 4 := by rw [hval]; linarith
      obtain ⟨hvN, hwN, heN⟩ := sub_tf_val hva hwa half_facts.1 half_facts.2.1
        (by rw [hval, _root_.abs_abs]; linarith) half_natAbs
      rw [fval_half] at heN
      obtain ⟨hvD, hwD, heD⟩ := den_val hva hwa (by rw [hval]; linarith) ha4 half_facts.1 half_facts.2.1
        fval_half (by norm_num) (by norm_num) (by rw [half_facts.2.2]; constructor <;> norm_num)
      have hres := atan_mid_full (c := 1 / 2) (by norm_num) (by norm_num) ha0 ha4 hvN hwN heN hvD hwD heD
        (by
          rw [hval, abs_div, abs_of_pos (by positivity : (0 : ℚ) < 1 + 1 / 2 * |val x|),
            div_le_iff₀ (by positivity)]
          rw [abs_le]; constructor <;> linarith)
        C1_check.1 C1_check.2.1 C1_real C1_check.2.2.1
      rw [hrva] at hres
      exact fin _ hres.1 (TwoFloat.add_tt_WF _ _) hres.2
    · have b1' : ROrd.isLt (base.impl_PartialOrd_f64_for_TwoFloat.partial_cmp k (f64lit 0x4008000000000000)) = false := by
        simpa using b1
      simp only [b1', Bool.false_eq_true, if_false]
      have hk3 : (3 : ℚ) ≤ val k := by
        have := mt (cmp_lt_lit hvk three_lit.2.1 three_lit.1).2 b1
        rw [fval_three] at this
        exact not_lt.1 this
      have hE3 := (thr hek (by norm_num : (3 : ℚ) ≤ 16)).2 hk3
      have hAlo2 : 68 / 100 ≤ |val x| := by
        have : (1 : ℚ) / 2 ^ 100 ≤ 1 / 100 := by norm_num
        linarith
      by_cases b2 : ROrd.isLt (base.impl_PartialOrd_f64_for_TwoFloat.partial_cmp k (f64lit 0x4014000000000000)) = true
      · simp only [b2, if_true]
        have hk5 := (cmp_lt_lit hvk five_lit.2.1 five_lit.1).1 b2
        rw [fval_five] at hk5
        have hE5 := (thr hek (by norm_num : (5 : ℚ) ≤ 16)).1 hk5.le
        have hAhi : |val x| ≤ 12 / 10 := by
          have : (1 : ℚ) / 2 ^ 100 ≤ 1 / 100 := by norm_num
          linarith
        have ha0 : 0 ≤ val a := by rw [hval]; exact hA0
        have ha4 : val a ≤ 4 := by rw [hval]; linarith
        obtain ⟨hvN, hwN, heN⟩ := sub_tf_val hva hwa lit_one_facts.1 lit_one_facts.2.1
          (by rw [hval, _root_.abs_abs]; linarith) one_natAbs
        rw [fval_one] at heN
        obtain ⟨hvD, hwD, heD⟩ := add_ft_val hva hwa lit_one_facts.1 lit_one_facts.2.1
          (by rw [hval, _root_.abs_abs]; linarith) one_natAbs
        rw [fval_one] at heD
        have heD' : |val (arithmetic.impl_Add_rTwoFloat_for_rf64.add (f64lit 0x3ff0000000000000) a)
            - (1 + 1 * val a)| ≤ 1 / 2 ^ 103 * |1 + 1 * val a| := by
          rw [one_mul]
          refine le_trans heD (mul_le_mul_of_nonneg_right (by norm_num) (abs_nonneg _))
        have hres := atan_mid_full (c := 1) (by norm_num) (by norm_num) ha0 ha4 hvN hwN heN hvD hwD heD'
          (by
            rw [hval, one_mul, abs_div, abs_of_pos (by positivity : (0 : ℚ) < 1 + |val x|),
              div_le_iff₀ (by positivity)]
            rw [abs_le]; constructor <;> linarith)
          C2_check.1 C2_check.2.1 C2_real C2_check.2.2
        rw [hrva] at hres
        exact fin _ hres.1 (TwoFloat.add_tt_WF _ _) hres.2
      · have b2' : ROrd.isLt (base.impl_PartialOrd_f64_for_TwoFloat.partial_cmp k (f64lit 0x4014000000000000)) = false := by
          simpa using b2
        simp only [b2', Bool.false_eq_true, if_false]
        have hk5 : (5 : ℚ) ≤ val k := by
          have := mt (cmp_lt_lit hvk five_lit.2.1 five_lit.1).2 b2
          rw [fval_five] at this
          exact not_lt.1 this
        have hE5 := (thr hek (by norm_num : (5 : ℚ) ≤ 16)).2 hk5
        have hAlo3 : 118 / 100 ≤ |val x| := by
          have : (1 : ℚ) / 2 ^ 100 ≤ 1 / 100 := by norm_num
          linarith
        by_cases b3 : ROrd.isLt (base.impl_PartialOrd_f64_for_TwoFloat.partial_cmp k (f64lit 0x4024000000000000)) = true
        · simp only [b3, if_true]
          have hk10 := (cmp_lt_lit hvk ten_lit.2.1 ten_lit.1).1 b3
          rw [fval_ten] at hk10
          have hE10 := (thr hek (by norm_num : (10 : ℚ) ≤ 16)).1 hk10.le
          have hAhi : |val x| ≤ 245 / 100 := by
            have : (1 : ℚ) / 2 ^ 100 ≤ 1 / 100 := by norm_num
            linarith
          have ha0 : 0 ≤ val a := by rw [hval]; exact hA0
          have ha4 : val a ≤ 4 := by rw [hval]; linarith
          obtain ⟨hvN, hwN, heN⟩ := sub_tf_val hva hwa three_halves_lit.1 three_halves_lit.2.1
            (by rw [hval, _root_.abs_abs]; linarith) three_halves_lit.2.2.2
          rw [fval_three_halves] at heN
          obtain ⟨hvD, hwD, heD⟩ := den_val hva hwa (by rw [hval]; linarith) ha4 three_halves_lit.1
            three_halves_lit.2.1 fval_three_halves (by norm_num) (by norm_num)
            (by rw [three_halves_lit.2.2.1]; constructor <;> norm_num)
          have hres := atan_mid_full (c := 3 / 2) (by norm_num) (by norm_num) ha0 ha4 hvN hwN heN hvD hwD heD
            (by
              rw [hval, abs_div, abs_of_pos (by positivity : (0 : ℚ) < 1 + 3 / 2 * |val x|),
                div_le_iff₀ (by positivity)]
              rw [abs_le]; constructor <;> linarith)
            C3_check.1 C3_check.2.1 C3_real C3_check.2.2.1
          rw [hrva] at hres
          exact fin _ hres.1 (TwoFloat.add_tt_WF _ _) hres.2
        · have b3' : ROrd.isLt (base.impl_PartialOrd_f64_for_TwoFloat.partial_cmp k (f64lit 0x4024000000000000)) = false := by
            simpa using b3
          simp only [b3', Bool.false_eq_true, if_false]
          have hk10 : (10 : ℚ) ≤ val k := by
            have := mt (cmp_lt_lit hvk ten_lit.2.1 ten_lit.1).2 b3
            rw [fval_ten] at this
            exact not_lt.1 this
          have hE10 := (thr hek (by norm_num : (10 : ℚ) ≤ 16)).2 hk10
          have hres := atan_big hva hwa (by rw [hval]; linarith) (by rw [hval]; exact hx)
          rw [hrva] at hres
          exact fin _ hres.1 hres.2.1 hres.2.2

/-! ## 4. `atan2` off the axes, without the gap condition -/

/-- **C17 (atan2), WITHOUT the gap condition**: valid operands with high words of magnitude in `[2^-30, 2^30]`: valid
result within relative `2^-69` of the four-quadrant angle (the proof is that of `C17t.atan2_bound` with
`atan_bound_full`) -/
theorem atan2_bound_full {y x : TwoFloat} (hvy : y.Valid) (hwy : y.WF) (hvx : x.Valid) (hwx : x.WF)
    (hy : 2 ^ 1044 ≤ y.hi.toInt.natAbs ∧ y.hi.toInt.natAbs ≤ 2 ^ 1104)
    (hx : 2 ^ 1044 ≤ x.hi.toInt.natAbs ∧ x.hi.toInt.natAbs ≤ 2 ^ 1104) :
    (TwoFloat.atan2 y x).Valid ∧
    |rval (TwoFloat.atan2 y x) - angle (rval y) (rval x)| ≤ 1 / 2 ^ 69 * |angle (rval y) (rval x)| := by
  -- the zero tests
  have hyne : y.hi.toInt ≠ 0 := by
    intro h; have := hy.1; rw [h] at this; simp at this
  have hxne : x.hi.toInt ≠ 0 := by
    intro h; have := hx.1; rw [h] at this; simp at this
  have hy0 : (y.hi ==. f64lit 0) = false := by
    rw [C17t.f64lit_zero]
    exact Bool.eq_false_iff.2 (fun h => hyne ((F64.eq_zero_iff hvy.1).1 h))
  have hx0 : (x.hi ==. f64lit 0) = false := by
    rw [C17t.f64lit_zero]
    exact Bool.eq_false_iff.2 (fun h => hxne ((F64.eq_zero_iff hvx.1).1 h))
  rw [C17.atan2_general y x hy0 hx0]
  -- sizes
  obtain ⟨yl, yu⟩ := val_of_hi hvy hy.1 hy.2
  obtain ⟨xl, xu⟩ := val_of_hi hvx hx.1 hx.2
  have eL : (2 : ℚ) / 3 * 2 ^ 1044 / 2 ^ 1074 = 2 / 3 / 2 ^ 30 := by
    rw [show (1074 : ℕ) = 1044 + 30 by norm_num, pow_add]; field_simp
  have eU : (3 : ℚ) / 2 * 2 ^ 1104 / 2 ^ 1074 = 3 / 2 * 2 ^ 30 := by
    rw [show (1104 : ℕ) = 1074 + 30 by norm_num, pow_add]; field_simp
  rw [eL] at yl xl
  rw [eU] at yu xu
  have hxpos : 0 < |val x| := lt_of_lt_of_le (by positivity) xl
  have hxne' : val x ≠ 0 := abs_pos.1 hxpos
  -- the quotient
  obtain ⟨hvq, hwq, heq⟩ := div_tt_val hvy hwy hvx hwx
    ⟨le_trans (Nat.pow_le_pow_right (by norm_num) (by norm_num)) hy.1,
     le_trans hy.2 (Nat.pow_le_pow_right (by norm_num) (by norm_num))⟩
    ⟨le_trans (Nat.pow_le_pow_right (by norm_num) (by norm_num)) hx.1,
     le_trans hx.2 (Nat.pow_le_pow_right (by norm_num) (by norm_num))⟩
  set q := arithmetic.impl_Div_rTwoFloat_for_rTwoFloat.div y x with hqdef
  set t := val y / val x with htdef
  have htq : |t - val q| ≤ 1 / 2 ^ 102 * |t| := by
    have e : t - val q = (val y - val q * val x) / val x := by rw [htdef]; field_simp
    rw [e, abs_div, htdef, abs_div, ← mul_div_assoc]
    exact div_le_div_of_nonneg_right heq hxpos.le
  have htb : |t| ≤ 2 ^ 62 - 1 := by
    rw [htdef, abs_div, div_le_iff₀ hxpos]
    have : (2 ^ 62 - 1 : ℚ) * (2 / 3 / 2 ^ 30) ≤ (2 ^ 62 - 1) * |val x| :=
      mul_le_mul_of_nonneg_left xl (by norm_num)
    have : (3 : ℚ) / 2 * 2 ^ 30 ≤ (2 ^ 62 - 1) * (2 / 3 / 2 ^ 30) := by norm_num
    linarith
  have hqb : |val q| ≤ 2 ^ 62 := by
    have := abs_add_le (val q - t) t
    rw [sub_add_cancel, abs_sub_comm] at this
    have h1 : 1 / 2 ^ 102 * |t| ≤ 1 / 2 ^ 102 * (2 ^ 62 - 1) := mul_le_mul_of_nonneg_left htb (by positivity)
    have : (1 : ℚ) / 2 ^ 102 * (2 ^ 62 - 1) ≤ 1 := by norm_num
    linarith
  obtain ⟨hva, hea⟩ := atan_bound_full hvq hwq hqb
  have hwa := C17p.atan_WF q
  set a := TwoFloat.atan q with hadef
  -- in the reals
  set T : ℝ := rval y / rval x with hTdef
  have hTt : T = ((t : ℚ) : ℝ) := by rw [hTdef, htdef]; unfold rval; push_cast; rfl
  have hpert : |Real.arctan (rval q) - Real.arctan T| ≤ 1 / 2 ^ 100 * |Real.arctan T| := by
    refine arctan_rel_perturb ?_
    rw [hTt]
    have := (Rat.cast_le (K := ℝ)).2 htq
    unfold rval
    push_cast at this ⊢
    exact this
  have hpi2 : |Real.arctan T| ≤ 2 := by
    rw [abs_le]
    have := Real.arctan_lt_pi_div_two T
    have := Real.neg_pi_div_two_lt_arctan T
    have := Real.pi_le_four
    constructor <;> linarith
  have haT : |rval a - Real.arctan T| ≤ (1 / 2 ^ 70 + 1 / 2 ^ 99) * |Real.arctan T| := by
    have h1 : |Real.arctan (rval q)| ≤ |Real.arctan T| * (1 + 1 / 2 ^ 100) := by
      have := abs_add_le (Real.arctan (rval q) - Real.arctan T) (Real.arctan T)
      rw [sub_add_cancel] at this
      linarith
    have e : rval a - Real.arctan T = (rval a - Real.arctan (rval q)) + (Real.arctan (rval q) - Real.arctan T) := by
      ring
    rw [e]
    refine le_trans (abs_add_le _ _) ?_
    have h2 := mul_le_mul_of_nonneg_left h1 (by positivity : (0 : ℝ) ≤ 1 / 2 ^ 70)
    have h3 : 1 / 2 ^ 70 * (|Real.arctan T| * (1 + 1 / 2 ^ 100)) + 1 / 2 ^ 100 * |Real.arctan T|
        ≤ (1 / 2 ^ 70 + 1 / 2 ^ 99) * |Real.arctan T| := by
      have : (1 : ℝ) / 2 ^ 70 * (1 + 1 / 2 ^ 100) + 1 / 2 ^ 100 ≤ 1 / 2 ^ 70 + 1 / 2 ^ 99 := by norm_num
      have := mul_le_mul_of_nonneg_right this (abs_nonneg (Real.arctan T))
      linarith
    linarith
  have hab : |val a| ≤ 3 := by
    refine rval_abs_le ?_
    push_cast
    have := abs_add_le (rval a - Real.arctan T) (Real.arctan T)
    rw [sub_add_cancel] at this
    have : (1 / 2 ^ 70 + 1 / 2 ^ 99) * |Real.arctan T| ≤ (1 / 2 ^ 70 + 1 / 2 ^ 99) * 2 :=
      mul_le_mul_of_nonneg_left hpi2 (by positivity)
    have : ((1 : ℝ) / 2 ^ 70 + 1 / 2 ^ 99) * 2 ≤ 1 := by norm_num
    linarith
  have hivx : TwoFloat.is_valid x = true := (C07.is_valid_iff x hwx).2 hvx
  have hivy : TwoFloat.is_valid y = true := (C07.is_valid_iff y hwy).2 hvy
  have hxV : x.V ≠ 0 := fun h => hxne ((TwoFloat.V_zero_iff_hi_zero hivx hvx).1 h)
  have hyV : y.V ≠ 0 := fun h => hyne ((TwoFloat.V_zero_iff_hi_zero hivy hvy).1 h)
  have sx := TwoFloat.hi_sign_positive_iff hivx hvx hxV
  have sy := TwoFloat.hi_sign_positive_iff hivy hvy hyV
  obtain ⟨hvP, hwP, hPb⟩ := PI_check
  have hpi3 : 3 ≤ Real.pi := Real.pi_gt_three.le
  unfold angle
  cases hsx : F64.is_sign_positive x.hi
  · -- x < 0
    have hxneg : ¬ (0 < rval x) := fun h => by
      have := sx.2 ((rval_pos_iff x).1 h); rw [hsx] at this; exact Bool.false_ne_true this
    have hXneg : rval x < 0 := by
      refine lt_of_le_of_ne (not_lt.1 hxneg) ?_
      intro h0; unfold rval at h0
      exact hxne' (by exact_mod_cast h0)
    simp only [hxneg, if_false, Bool.false_eq_true]
    cases hsy : F64.is_sign_positive y.hi
    · -- y < 0: a − PI
      have hyneg : ¬ (0 < rval y) := fun h => by
        have := sy.2 ((rval_pos_iff y).1 h); rw [hsy] at this; exact Bool.false_ne_true this
      simp only [hyneg, if_false, Bool.false_eq_true]
      have hTpos : 0 ≤ T := by
        rw [hTdef]; exact div_nonneg_of_nonpos (not_lt.1 hyneg) hXneg.le
      have hA0 : 0 ≤ Real.arctan T := Real.arctan_nonneg.2 hTpos
      have hA1 := Real.arctan_lt_pi_div_two T
      obtain ⟨hvs, _, hes⟩ := sub_tt_val hva hwa hvP hwP (le_trans hab (by norm_num)) (le_trans hPb (by norm_num))
      refine ⟨hvs, ?_⟩
      have hes' : |val (arithmetic.impl_Sub_rTwoFloat_for_rTwoFloat.sub a consts.PI) - (val a - val consts.PI)|
          ≤ 7 / 2 ^ 104 := by
        refine le_trans hes ?_
        have h7 : |val a - val consts.PI| ≤ 7 := le_trans (abs_sub _ _) (by linarith)
        have := mul_le_mul cA_le h7 (abs_nonneg _) (by positivity)
        refine le_trans this ?_
        norm_num
      have t1 : |rval (arithmetic.impl_Sub_rTwoFloat_for_rTwoFloat.sub a consts.PI)
          - (rval a - rval consts.PI)| ≤ 7 / 2 ^ 104 := by
        have := cast_abs_sub_le hes'
        unfold rval
        push_cast at this ⊢
        exact this
      show |rval (arithmetic.impl_Sub_rTwoFloat_for_rTwoFloat.sub a consts.PI) - (Real.arctan T - Real.pi)|
        ≤ 1 / 2 ^ 69 * |Real.arctan T - Real.pi|
      have habs : |Real.arctan T - Real.pi| = Real.pi - Real.arctan T := by
        rw [abs_of_neg (by linarith)]; ring
      rw [habs]
      rw [abs_of_nonneg hA0] at haT
      have b1 := abs_le.1 t1
      have b2 := abs_le.1 PI_real_err
      have b3 := abs_le.1 haT
      have k1 : (1 / 2 ^ 70 + 1 / 2 ^ 99) * Real.arctan T ≤ (1 / 2 ^ 70 + 1 / 2 ^ 99) * (Real.pi - Real.arctan T) :=
        mul_le_mul_of_nonneg_left (by linarith) (by positivity)
      have k2 : (7 : ℝ) / 2 ^ 104 + 1 / 2 ^ 105 ≤ 1 / 2 ^ 99 * (Real.pi - Real.arctan T) := by
        have : (1 : ℝ) / 2 ^ 99 * 1 ≤ 1 / 2 ^ 99 * (Real.pi - Real.arctan T) :=
          mul_le_mul_of_nonneg_left (by linarith) (by positivity)
        have : (7 : ℝ) / 2 ^ 104 + 1 / 2 ^ 105 ≤ 1 / 2 ^ 99 * 1 := by norm_num
        linarith
      have k3 : (1 / 2 ^ 70 + 1 / 2 ^ 99) * (Real.pi - Real.arctan T) + 1 / 2 ^ 99 * (Real.pi - Real.arctan T)
          ≤ 1 / 2 ^ 69 * (Real.pi - Real.arctan T) := by
        have : ((1 : ℝ) / 2 ^ 70 + 1 / 2 ^ 99) + 1 / 2 ^ 99 ≤ 1 / 2 ^ 69 := by norm_num
        have := mul_le_mul_of_nonneg_right this (by linarith : (0 : ℝ) ≤ Real.pi - Real.arctan T)
        linarith
      rw [abs_le]
      constructor <;> linarith [b1.1, b1.2, b2.1, b2.2, b3.1, b3.2]
    · -- y > 0: a + PI
      have hypos : 0 < rval y := (rval_pos_iff y).2 (sy.1 hsy)
      simp only [hypos, if_true]
      have hTneg : T ≤ 0 := by
        rw [hTdef]; exact div_nonpos_of_nonneg_of_nonpos hypos.le hXneg.le
      have hA0 : Real.arctan T ≤ 0 := by
        have := Real.arctan_nonneg.2 (by linarith : 0 ≤ -T)
        rw [Real.arctan_neg] at this; linarith
      have hA1 := Real.neg_pi_div_two_lt_arctan T
      obtain ⟨hvs, _, hes⟩ := add_tt_val hva hwa hvP hwP (le_trans hab (by norm_num)) (le_trans hPb (by norm_num))
      refine ⟨hvs, ?_⟩
      have hes' : |val (arithmetic.impl_Add_rTwoFloat_for_rTwoFloat.add a consts.PI) - (val a + val consts.PI)|
          ≤ 7 / 2 ^ 104 := by
        refine le_trans hes ?_
        have h7 : |val a + val consts.PI| ≤ 7 := le_trans (abs_add_le _ _) (by linarith)
        have := mul_le_mul cA_le h7 (abs_nonneg _) (by positivity)
        refine le_trans this ?_
        norm_num
      have t1 : |rval (arithmetic.impl_Add_rTwoFloat_for_rTwoFloat.add a consts.PI)
          - (rval a + rval consts.PI)| ≤ 7 / 2 ^ 104 := by
        have := cast_abs_sub_le hes'
        unfold rval
        push_cast at this ⊢
        exact this
      show |rval (arithmetic.impl_Add_rTwoFloat_for_rTwoFloat.add a consts.PI) - (Real.arctan T + Real.pi)|
        ≤ 1 / 2 ^ 69 * |Real.arctan T + Real.pi|
      have habs : |Real.arctan T + Real.pi| = Real.pi + Real.arctan T := by
        rw [abs_of_pos (by linarith)]; ring
      rw [habs]
      rw [abs_of_nonpos hA0] at haT
      have b1 := abs_le.1 t1
      have b2 := abs_le.1 PI_real_err
      have b3 := abs_le.1 haT
      have k1 : (1 / 2 ^ 70 + 1 / 2 ^ 99) * -Real.arctan T ≤ (1 / 2 ^ 70 + 1 / 2 ^ 99) * (Real.pi + Real.arctan T) :=
        mul_le_mul_of_nonneg_left (by linarith) (by positivity)
      have k2 : (7 : ℝ) / 2 ^ 104 + 1 / 2 ^ 105 ≤ 1 / 2 ^ 99 * (Real.pi + Real.arctan T) := by
        have : (1 : ℝ) / 2 ^ 99 * 1 ≤ 1 / 2 ^ 99 * (Real.pi + Real.arctan T) :=
          mul_le_mul_of_nonneg_left (by linarith) (by positivity)
        have : (7 : ℝ) / 2 ^ 104 + 1 / 2 ^ 105 ≤ 1 / 2 ^ 99 * 1 := by norm_num
        linarith
      have k3 : (1 / 2 ^ 70 + 1 / 2 ^ 99) * (Real.pi + Real.arctan T) + 1 / 2 ^ 99 * (Real.pi + Real.arctan T)
          ≤ 1 / 2 ^ 69 * (Real.pi + Real.arctan T) := by
        have : ((1 : ℝ) / 2 ^ 70 + 1 / 2 ^ 99) + 1 / 2 ^ 99 ≤ 1 / 2 ^ 69 := by norm_num
        have := mul_le_mul_of_nonneg_right this (by linarith : (0 : ℝ) ≤ Real.pi + Real.arctan T)
        linarith
      rw [abs_le]
      constructor <;> linarith [b1.1, b1.2, b2.1, b2.2, b3.1, b3.2]
  · -- x > 0
    have hxpos' : 0 < rval x := (rval_pos_iff x).2 (sx.1 hsx)
    simp only [hxpos', if_true]
    refine ⟨hva, le_trans haT ?_⟩
    exact mul_le_mul_of_nonneg_right (by norm_num) (abs_nonneg _)

/-! ## 5. instances on concrete arguments inside the newly covered slivers -/

/-- `1 − 2^-1074 = (1, −2^-1074)`, the valid pair closest to `1` from below: inside `1 − 2^-890 < |x| < 1` -/
def xDown : TwoFloat := ⟨F64.one, F64.fin true 1⟩
/-- `1 + 2^-1074 = (1, 2^-1074)`: within `2^-950` of the reduction centre `1` of `atan`, not equal to it -/
def xUp : TwoFloat := ⟨F64.one, F64.fin false 1⟩
/-- `−(1/2 + 2^-1074)`: next to the reduction centre `1/2`, negative -/
def xHalf : TwoFloat := ⟨f64lit 0xbfe0000000000000, F64.fin true 1⟩

example : 1 - 1 / 2 ^ 890 < |val xDown| ∧ |val xDown| < 1 := by decide +kernel

example : ¬ (|val xUp| = 1 ∨ 1 / 2 ^ 950 ≤ |(|val xUp|) - 1|) := by decide +kernel

/-- `asin(1 − 2^-1074)`, `acos(1 − 2^-1074)` -/
example :
    |rval (TwoFloat.asin xDown) - Real.arcsin (rval xDown)| ≤ 1 / 2 ^ 45 ∧
    |rval (TwoFloat.asin xDown) - Real.arcsin (rval xDown)| ≤ 1 / 2 ^ 43 * |Real.arcsin (rval xDown)| ∧
    |rval (TwoFloat.acos xDown) - Real.arccos (rval xDown)| ≤ 1 / 2 ^ 45 :=
  ⟨C17_asin_abs_full (by decide +kernel) (by decide +kernel) (by decide +kernel),
   C17_asin_rel_full (by decide +kernel) (by decide +kernel) (by decide +kernel),
   C17_acos_abs_full (by decide +kernel) (by decide +kernel) (by decide +kernel)⟩

/-- `atan(1 + 2^-1074)`, `atan(−1/2 − 2^-1074)`: excluded by the gap condition of `C17t.atan_bound` -/
example :
    |rval (TwoFloat.atan xUp) - Real.arctan (rval xUp)| ≤ 1 / 2 ^ 70 * |Real.arctan (rval xUp)| ∧
    |rval (TwoFloat.atan xHalf) - Real.arctan (rval xHalf)| ≤ 1 / 2 ^ 70 * |Real.arctan (rval xHalf)| :=
  ⟨(atan_bound_full (by decide +kernel) (by decide +kernel) (by decide +kernel)).2,
   (atan_bound_full (by decide +kernel) (by decide +kernel) (by decide +kernel)).2⟩

/-- `atan2(1 + 2^-1074, 1)`: the computed quotient is next to the reduction centre `1` -/
example :
    |rval (TwoFloat.atan2 xUp ⟨f64lit 0x3ff0000000000000, F64.zero⟩)
      - angle (rval xUp) (rval ⟨f64lit 0x3ff0000000000000, F64.zero⟩)|
      ≤ 1 / 2 ^ 69 * |angle (rval xUp) (rval ⟨f64lit 0x3ff0000000000000, F64.zero⟩)| :=
  (atan2_bound_full (by decide +kernel) (by decide +kernel) (by decide +kernel) (by decide +kernel)
    (by decide +kernel) (by decide +kernel)).2

end C17u
