/-
Property C19, tolerance clause — the MIXED remainders and the Euclidean operations on general valid operands.
(`C19.lean`: structure; `C19x.lean`: exactness on small integers and the tolerance of `TwoFloat % TwoFloat`.)

Units: every value is a scaled integer (units of `2^-1074`), `unit = 2^1074` is the integer 1, `u² = 2^-106`.
Ranges: high words / doubles of magnitude in `[2^-450, 2^450]` (scaled `[2^624, 2^1524]`), `|a / b| ≤ 2^100`; the `_c19`
versions use the property's own range `[2^-400, 2^400]` and constants (`16u²·max(|a|,|b|)`, relative `2^-98`).
`K` is always the EXACT integer returned by `trunc(a / b)` as computed; `Int.tdiv` is the truncated quotient of the exact
values, `a.V / b.V` (`Int.ediv`) the Euclidean one (`floor` for `b > 0`, `ceil` for `b < 0`: `ediv_floor`, `ediv_ceil`).

Main results (proofs in `TFV.Lemmas.RemMixed`):
* `rem_tf_tolerance`  : `TwoFloat % f64`:  `K = trunc(a/f)` or adjacent (only if `a/f` is within relative `2^-102` of an
                        integer); valid result; `|(a % f) − (a − K·f)| ≤ 6u²·|a|`;
  `rem_tf_tolerance_c19`, `rem_assign_tf_tolerance_c19` (`%=` with an `f64` right-hand side: both impls);
* `rem_ft_tolerance`  : `f64 % TwoFloat`:  the same with `11u²·|f|`; `rem_ft_tolerance_c19`;
* `rem_tt_tolerance_rel` : `TwoFloat % TwoFloat` with the bound relative to the dividend alone, `11u²·|a|`
                        (sharper than `C19x.rem_tolerance`, which has `max(|a|, |b|)`);
* `euclid_tolerance`  : `div_euclid(a, b)` returns EXACTLY an integer `q` (valid pair): `q = K` if the computed remainder
                        `r = a % b` is `≥ 0`, `K − 1` if `r < 0 < b`, `K + 1` if `r < 0`, `b < 0`; `q` is the Euclidean
                        quotient `a.V / b.V`, or adjacent and then `a/b` is within relative `2^-102` of an integer;
                        `rem_euclid(a, b)` is `r` or `r + |b|` (same branch), a valid pair with
                        `|rem_euclid − (a − q·b)| ≤ 16u²·max(|a|,|b|)`, `−31u²·max ≤ rem_euclid ≤ |b| + 27u²·max`;
  `euclid_tolerance_c19`, `div_euclid_floor_c19`, `div_euclid_ceil_c19`.
* counterexamples (kernel-evaluated): `rem_euclid` CAN be (slightly) negative, CAN be equal to `|b|`, `div_euclid` CAN be
  adjacent to `floor(a/b)`, `trunc(a / b)` CAN be adjacent to `trunc` of the exact quotient — so none of the
  "up to tolerance" / "or adjacent" escapes can be removed.
-/
import TFV.Lemmas.RemMixed
import TFV.Properties.C19x

set_option exponentiation.threshold 3000

namespace C19y

open F64 TwoFloat

/-! ## `TwoFloat % f64` and `%=` -/

/-- **C19, tolerance clause for `TwoFloat % f64`.**  Valid `a`, finite double `f`, both of magnitude in
`[2^-450, 2^450]`, `|a / f| ≤ 2^100`.  The quotient used by `%` is an exact integer `K`, `K = trunc(a/f)` or adjacent (and
then `a/f` is within relative `2^-102` of an integer `j`); the result is valid and within `6u²·|a|` of `a − K·f`.
Budget: division `3u²` (C05c; decides `K` only), `trunc` exact (C08), product `2u²` (C04b), difference `3u² + 13u³` (C03b). -/
theorem rem_tf_tolerance {a : TwoFloat} {f : F64} (ha : a.Valid) (hwa : a.WF)
    (hf : f.is_finite = true) (hwf : f.WF)
    (hA : 2 ^ 624 ≤ a.hi.toInt.natAbs ∧ a.hi.toInt.natAbs ≤ 2 ^ 1524)
    (hB : 2 ^ 624 ≤ f.toInt.natAbs ∧ f.toInt.natAbs ≤ 2 ^ 1524)
    (hR : |a.V| ≤ 2 ^ 100 * |f.toInt|) :
    ∃ K : ℤ, (TwoFloat.trunc (a /. f)).V = K * (unit : ℤ) ∧
      (K = a.V.tdiv f.toInt ∨
        ((K = a.V.tdiv f.toInt + 1 ∨ K = a.V.tdiv f.toInt - 1) ∧
          ∃ j : ℤ, 2 ^ 102 * |a.V - j * f.toInt| ≤ |a.V|)) ∧
      (a %. f).Valid ∧
      2 ^ 106 * |(a %. f).V - (a.V - K * f.toInt)| ≤ 6 * |a.V| :=
  RemMixed.rem_tf_tolerance ha hwa hf hwf hA hB hR

/-- weakening of the three conclusions to the property's constants -/
theorem weaken_c19 {A B K k R c : ℤ} (hc : c ≤ 16)
    (h1 : K = k ∨ ((K = k + 1 ∨ K = k - 1) ∧ ∃ j : ℤ, 2 ^ 102 * |A - j * B| ≤ |A|))
    (h3 : 2 ^ 106 * |R - (A - K * B)| ≤ c * |A|) :
    (K = k ∨ ((K = k + 1 ∨ K = k - 1) ∧ ∃ j : ℤ, 2 ^ 98 * |A - j * B| ≤ |A|)) ∧
    2 ^ 106 * |R - (A - K * B)| ≤ 16 * max |A| |B| := by
  constructor
  · rcases h1 with h | ⟨h, j, hj⟩
    · exact Or.inl h
    · refine Or.inr ⟨h, j, ?_⟩
      have := abs_nonneg (A - j * B)
      linarith
  · have h0 := abs_nonneg A
    have hM : |A| ≤ max |A| |B| := le_max_left _ _
    have : c * |A| ≤ 16 * |A| := mul_le_mul_of_nonneg_right hc h0
    linarith

/-- the clause with the property's range (`[2^-400, 2^400]`) and constants (`16u²·max(|a|, |f|)`, relative `2^-98`) -/
theorem rem_tf_tolerance_c19 {a : TwoFloat} {f : F64} (ha : a.Valid) (hwa : a.WF)
    (hf : f.is_finite = true) (hwf : f.WF)
    (hA : 2 ^ 674 ≤ a.hi.toInt.natAbs ∧ a.hi.toInt.natAbs ≤ 2 ^ 1474)
    (hB : 2 ^ 674 ≤ f.toInt.natAbs ∧ f.toInt.natAbs ≤ 2 ^ 1474)
    (hR : |a.V| ≤ 2 ^ 100 * |f.toInt|) :
    ∃ K : ℤ,
      (K = a.V.tdiv f.toInt ∨
        ((K = a.V.tdiv f.toInt + 1 ∨ K = a.V.tdiv f.toInt - 1) ∧
          ∃ j : ℤ, 2 ^ 98 * |a.V - j * f.toInt| ≤ |a.V|)) ∧
      (a %. f).Valid ∧
      2 ^ 106 * |(a %. f).V - (a.V - K * f.toInt)| ≤ 16 * max |a.V| |f.toInt| := by
  obtain ⟨K, -, h1, h2, h3⟩ := rem_tf_tolerance ha hwa hf hwf
    ⟨le_trans (by norm_num) hA.1, le_trans hA.2 (by norm_num)⟩
    ⟨le_trans (by norm_num) hB.1, le_trans hB.2 (by norm_num)⟩ hR
  obtain ⟨w1, w2⟩ := weaken_c19 (by norm_num) h1 h3
  exact ⟨K, w1, h2, w2⟩

/-- **`%=` with an `f64` right-hand side** (both impls) is the same function as `TwoFloat % f64`
(`C19.rem_assign_tf_val`, `C19.rem_assign_tf_ref`), hence the same clause -/
theorem rem_assign_tf_tolerance_c19 {a : TwoFloat} {f : F64} (ha : a.Valid) (hwa : a.WF)
    (hf : f.is_finite = true) (hwf : f.WF)
    (hA : 2 ^ 674 ≤ a.hi.toInt.natAbs ∧ a.hi.toInt.natAbs ≤ 2 ^ 1474)
    (hB : 2 ^ 674 ≤ f.toInt.natAbs ∧ f.toInt.natAbs ≤ 2 ^ 1474)
    (hR : |a.V| ≤ 2 ^ 100 * |f.toInt|) :
    arithmetic.impl_RemAssign_f64_for_TwoFloat.rem_assign a f = a %. f ∧
    arithmetic.impl_RemAssign_rf64_for_TwoFloat.rem_assign a f = a %. f ∧
    ∃ K : ℤ,
      (K = a.V.tdiv f.toInt ∨
        ((K = a.V.tdiv f.toInt + 1 ∨ K = a.V.tdiv f.toInt - 1) ∧
          ∃ j : ℤ, 2 ^ 98 * |a.V - j * f.toInt| ≤ |a.V|)) ∧
      (arithmetic.impl_RemAssign_f64_for_TwoFloat.rem_assign a f).Valid ∧
      2 ^ 106 * |(arithmetic.impl_RemAssign_f64_for_TwoFloat.rem_assign a f).V - (a.V - K * f.toInt)|
        ≤ 16 * max |a.V| |f.toInt| :=
  ⟨rfl, rfl, rem_tf_tolerance_c19 ha hwa hf hwf hA hB hR⟩

/-! ## `f64 % TwoFloat` -/

/-- **C19, tolerance clause for `f64 % TwoFloat`.**  Finite double `f`, valid `b`, both of magnitude in
`[2^-450, 2^450]`, `|f / b| ≤ 2^100`: valid result within `11u²·|f|` of `f − K·b`.
Budget: division `16u²` (C01d; decides `K` only), `trunc` exact, product `7u²` (C04b), difference `2u²` (C03b). -/
theorem rem_ft_tolerance {f : F64} {b : TwoFloat} (hf : f.is_finite = true) (hwf : f.WF)
    (hb : b.Valid) (hwb : b.WF)
    (hA : 2 ^ 624 ≤ f.toInt.natAbs ∧ f.toInt.natAbs ≤ 2 ^ 1524)
    (hB : 2 ^ 624 ≤ b.hi.toInt.natAbs ∧ b.hi.toInt.natAbs ≤ 2 ^ 1524)
    (hR : |f.toInt| ≤ 2 ^ 100 * |b.V|) :
    ∃ K : ℤ, (TwoFloat.trunc (f /. b)).V = K * (unit : ℤ) ∧
      (K = f.toInt.tdiv b.V ∨
        ((K = f.toInt.tdiv b.V + 1 ∨ K = f.toInt.tdiv b.V - 1) ∧
          ∃ j : ℤ, 2 ^ 102 * |f.toInt - j * b.V| ≤ |f.toInt|)) ∧
      (f %. b).Valid ∧
      2 ^ 106 * |(f %. b).V - (f.toInt - K * b.V)| ≤ 11 * |f.toInt| :=
  RemMixed.rem_ft_tolerance hf hwf hb hwb hA hB hR

/-- the clause with the property's range and constants -/
theorem rem_ft_tolerance_c19 {f : F64} {b : TwoFloat} (hf : f.is_finite = true) (hwf : f.WF)
    (hb : b.Valid) (hwb : b.WF)
    (hA : 2 ^ 674 ≤ f.toInt.natAbs ∧ f.toInt.natAbs ≤ 2 ^ 1474)
    (hB : 2 ^ 674 ≤ b.hi.toInt.natAbs ∧ b.hi.toInt.natAbs ≤ 2 ^ 1474)
    (hR : |f.toInt| ≤ 2 ^ 100 * |b.V|) :
    ∃ K : ℤ,
      (K = f.toInt.tdiv b.V ∨
        ((K = f.toInt.tdiv b.V + 1 ∨ K = f.toInt.tdiv b.V - 1) ∧
          ∃ j : ℤ, 2 ^ 98 * |f.toInt - j * b.V| ≤ |f.toInt|)) ∧
      (f %. b).Valid ∧
      2 ^ 106 * |(f %. b).V - (f.toInt - K * b.V)| ≤ 16 * max |f.toInt| |b.V| := by
  obtain ⟨K, -, h1, h2, h3⟩ := rem_ft_tolerance hf hwf hb hwb
    ⟨le_trans (by norm_num) hA.1, le_trans hA.2 (by norm_num)⟩
    ⟨le_trans (by norm_num) hB.1, le_trans hB.2 (by norm_num)⟩ hR
  obtain ⟨w1, w2⟩ := weaken_c19 (by norm_num) h1 h3
  exact ⟨K, w1, h2, w2⟩

/-! ## `TwoFloat % TwoFloat`, relative to the dividend -/

/-- `TwoFloat % TwoFloat`: the error is at most `11u²·|a|` — relative to the DIVIDEND alone (`C19x.rem_tolerance` has
`max(|a|, |b|)`): `|a − K·b| ≤ (1 + 2^-101)|a|` because an adjacent `K` needs `a/b` near a non-zero integer. -/
theorem rem_tt_tolerance_rel {a b : TwoFloat} (ha : a.Valid) (hwa : a.WF) (hb : b.Valid) (hwb : b.WF)
    (hA : 2 ^ 624 ≤ a.hi.toInt.natAbs ∧ a.hi.toInt.natAbs ≤ 2 ^ 1524)
    (hB : 2 ^ 624 ≤ b.hi.toInt.natAbs ∧ b.hi.toInt.natAbs ≤ 2 ^ 1524)
    (hR : |a.V| ≤ 2 ^ 100 * |b.V|) :
    ∃ K : ℤ, (TwoFloat.trunc (a /. b)).V = K * (unit : ℤ) ∧
      (K = a.V.tdiv b.V ∨
        ((K = a.V.tdiv b.V + 1 ∨ K = a.V.tdiv b.V - 1) ∧ ∃ j : ℤ, 2 ^ 102 * |a.V - j * b.V| ≤ |a.V|)) ∧
      (a %. b).Valid ∧
      2 ^ 106 * |(a %. b).V - (a.V - K * b.V)| ≤ 11 * |a.V| := by
  obtain ⟨K, h1, -, -, -, h2, -, h3, h4⟩ := RemMixed.rem_tt_core ha hwa hb hwb hA hB hR
  exact ⟨K, h1, h2, h3, h4⟩

/-! ## `div_euclid`, `rem_euclid` -/

/-- `ℤ`'s Euclidean quotient is the floor of the rational quotient for a positive divisor, the ceiling for a negative one -/
theorem ediv_floor (m : ℤ) {n : ℤ} (hn : 0 < n) : m / n = ⌊(m : ℚ) / (n : ℚ)⌋ := C19x.ediv_eq_floor m hn
theorem ediv_ceil (m : ℤ) {n : ℤ} (hn : n < 0) : m / n = ⌈(m : ℚ) / (n : ℚ)⌉ := C19x.ediv_eq_ceil m hn

/-- **C19: `div_euclid` and `rem_euclid` on general valid operands** (high words of magnitude in `[2^-450, 2^450]`,
`|a / b| ≤ 2^100`).  With `K` the exact integer computed by `trunc(a / b)` and `r = a % b` the computed remainder
(`|r − (a − K·b)| ≤ 11u²|a|`):
1. `div_euclid(a, b)` is a valid pair whose value is EXACTLY the integer `q`, where `q = K` if `r ≥ 0`, `q = K − 1` if
   `r < 0 < b`, `q = K + 1` if `r < 0`, `b < 0`; `rem_euclid(a, b)` is `r`, resp. `r + |b|`, a valid pair;
2. `q` is the Euclidean quotient `a.V / b.V` (`floor(a/b)` for `b > 0`, `ceil(a/b)` for `b < 0`), or adjacent to it and
   then `a/b` is within relative `2^-102` of an integer `j`;
3. `|rem_euclid(a, b) − (a − q·b)| ≤ 16u²·max(|a|, |b|)`;
4. `−31u²·max(|a|, |b|) ≤ rem_euclid(a, b) ≤ |b| + 27u²·max(|a|, |b|)` (see the counterexamples below: neither
   `0 ≤ rem_euclid` nor `rem_euclid < |b|` holds exactly). -/
theorem euclid_tolerance {a b : TwoFloat} (ha : a.Valid) (hwa : a.WF) (hb : b.Valid) (hwb : b.WF)
    (hA : 2 ^ 624 ≤ a.hi.toInt.natAbs ∧ a.hi.toInt.natAbs ≤ 2 ^ 1524)
    (hB : 2 ^ 624 ≤ b.hi.toInt.natAbs ∧ b.hi.toInt.natAbs ≤ 2 ^ 1524)
    (hR : |a.V| ≤ 2 ^ 100 * |b.V|) :
    ∃ K q : ℤ,
      (K = a.V.tdiv b.V ∨
        ((K = a.V.tdiv b.V + 1 ∨ K = a.V.tdiv b.V - 1) ∧ ∃ j : ℤ, 2 ^ 102 * |a.V - j * b.V| ≤ |a.V|)) ∧
      (a %. b).Valid ∧ 2 ^ 106 * |(a %. b).V - (a.V - K * b.V)| ≤ 11 * |a.V| ∧
      (TwoFloat.div_euclid a b).V = q * (unit : ℤ) ∧ (TwoFloat.div_euclid a b).Valid ∧
      (TwoFloat.rem_euclid a b).Valid ∧
      ((0 ≤ (a %. b).V ∧ q = K ∧ TwoFloat.rem_euclid a b = a %. b) ∨
        ((a %. b).V < 0 ∧ ((0 < b.V ∧ q = K - 1) ∨ (b.V < 0 ∧ q = K + 1)) ∧
          TwoFloat.rem_euclid a b = (a %. b) +. TwoFloat.abs b)) ∧
      (q = a.V / b.V ∨
        ((q = a.V / b.V + 1 ∨ q = a.V / b.V - 1) ∧ ∃ j : ℤ, 2 ^ 102 * |a.V - j * b.V| ≤ |a.V|)) ∧
      2 ^ 106 * |(TwoFloat.rem_euclid a b).V - (a.V - q * b.V)| ≤ 16 * max |a.V| |b.V| ∧
      -(31 * max |a.V| |b.V|) ≤ 2 ^ 106 * (TwoFloat.rem_euclid a b).V ∧
      2 ^ 106 * (TwoFloat.rem_euclid a b).V ≤ 2 ^ 106 * |b.V| + 27 * max |a.V| |b.V| := by
  obtain ⟨K, q, n1, n3, rv, he, dV, dv, sv, hbr⟩ := RemMixed.euclid_core ha hwa hb hwb hA hB hR
  have hb0 : b.hi.toInt ≠ 0 := by
    intro h0
    have := hB.1
    rw [h0] at this
    norm_num at this
  have hBV0 : b.V ≠ 0 := fun h => hb0 (hb.V_zero_iff.1 h)
  -- the residual of `q`
  have hq : (0 ≤ (a %. b).V ∧ q = K) ∨ ((a %. b).V < 0 ∧ 0 < b.V ∧ q = K - 1) ∨
      ((a %. b).V < 0 ∧ b.V < 0 ∧ q = K + 1) := by
    rcases hbr with ⟨h1, h2, -⟩ | ⟨h1, h2 | h2, -⟩
    · exact Or.inl ⟨h1, h2⟩
    · exact Or.inr (Or.inl ⟨h1, h2.1, h2.2⟩)
    · exact Or.inr (Or.inr ⟨h1, h2.1, h2.2⟩)
  obtain ⟨hL, hU⟩ := RemMixed.euclid_resid_bounds he n3 hq
  have hE := RemMixed.euclid_quot_of_resid hBV0 hR hL hU
  -- the remainder
  have hrem : (0 ≤ (a %. b).V ∧ a.V - q * b.V = a.V - K * b.V ∧ (TwoFloat.rem_euclid a b).V = (a %. b).V) ∨
      ((a %. b).V < 0 ∧ a.V - q * b.V = a.V - K * b.V + |b.V| ∧
        |(TwoFloat.rem_euclid a b).V - ((a %. b).V + |b.V|)| * 2 ^ 159
          ≤ (3 * 2 ^ 53 + 13) * abs ((a %. b).V + |b.V|)) := by
    rcases hbr with ⟨h1, h2, h3⟩ | ⟨h1, h2 | h2, -, h4⟩
    · exact Or.inl ⟨h1, by rw [h2], by rw [h3]⟩
    · refine Or.inr ⟨h1, ?_, h4⟩
      rw [h2.2, abs_of_pos h2.1]; ring
    · refine Or.inr ⟨h1, ?_, h4⟩
      rw [h2.2, abs_of_neg h2.1]; ring
  obtain ⟨b1, b2, b3⟩ := RemMixed.euclid_rem_bounds (le_max_left |a.V| |b.V|) (le_max_right |a.V| |b.V|) he n3 hrem
  refine ⟨K, q, n1, rv, he, dV, dv, sv, ?_, hE, b1, b2, b3⟩
  rcases hbr with ⟨h1, h2, h3⟩ | ⟨h1, h2, h3, -⟩
  · exact Or.inl ⟨h1, h2, h3⟩
  · exact Or.inr ⟨h1, h2, h3⟩

/-- the clause with the property's range (`[2^-400, 2^400]`) and constants (`16u²`, relative `2^-98`): `q` is the exact
value of `div_euclid`, `rem_euclid` is within `16u²·max(|a|,|b|)` of `a − q·b` -/
theorem euclid_tolerance_c19 {a b : TwoFloat} (ha : a.Valid) (hwa : a.WF) (hb : b.Valid) (hwb : b.WF)
    (hA : 2 ^ 674 ≤ a.hi.toInt.natAbs ∧ a.hi.toInt.natAbs ≤ 2 ^ 1474)
    (hB : 2 ^ 674 ≤ b.hi.toInt.natAbs ∧ b.hi.toInt.natAbs ≤ 2 ^ 1474)
    (hR : |a.V| ≤ 2 ^ 100 * |b.V|) :
    ∃ q : ℤ,
      (TwoFloat.div_euclid a b).V = q * (unit : ℤ) ∧ (TwoFloat.div_euclid a b).Valid ∧
      (TwoFloat.rem_euclid a b).Valid ∧
      (q = a.V / b.V ∨
        ((q = a.V / b.V + 1 ∨ q = a.V / b.V - 1) ∧ ∃ j : ℤ, 2 ^ 98 * |a.V - j * b.V| ≤ |a.V|)) ∧
      2 ^ 106 * |(TwoFloat.rem_euclid a b).V - (a.V - q * b.V)| ≤ 16 * max |a.V| |b.V| ∧
      -(31 * max |a.V| |b.V|) ≤ 2 ^ 106 * (TwoFloat.rem_euclid a b).V ∧
      2 ^ 106 * (TwoFloat.rem_euclid a b).V ≤ 2 ^ 106 * |b.V| + 27 * max |a.V| |b.V| := by
  obtain ⟨K, q, -, -, -, dV, dv, sv, -, hE, b1, b2, b3⟩ := euclid_tolerance ha hwa hb hwb
    ⟨le_trans (by norm_num) hA.1, le_trans hA.2 (by norm_num)⟩
    ⟨le_trans (by norm_num) hB.1, le_trans hB.2 (by norm_num)⟩ hR
  refine ⟨q, dV, dv, sv, ?_, b1, b2, b3⟩
  rcases hE with h | ⟨h, j, hj⟩
  · exact Or.inl h
  · refine Or.inr ⟨h, j, ?_⟩
    have := abs_nonneg (a.V - j * b.V)
    linarith

/-- **C19: for `b > 0`, `div_euclid(a, b)` is exactly `floor(a/b)`** (rational floor of the exact values), or adjacent
to it — and then `a/b` is within relative `2^-98` of an integer -/
theorem div_euclid_floor_c19 {a b : TwoFloat} (ha : a.Valid) (hwa : a.WF) (hb : b.Valid) (hwb : b.WF)
    (hA : 2 ^ 674 ≤ a.hi.toInt.natAbs ∧ a.hi.toInt.natAbs ≤ 2 ^ 1474)
    (hB : 2 ^ 674 ≤ b.hi.toInt.natAbs ∧ b.hi.toInt.natAbs ≤ 2 ^ 1474)
    (hR : |a.V| ≤ 2 ^ 100 * |b.V|) (hpos : 0 < b.V) :
    ∃ q : ℤ, (TwoFloat.div_euclid a b).V = q * (unit : ℤ) ∧ (TwoFloat.div_euclid a b).Valid ∧
      (q = ⌊(a.V : ℚ) / (b.V : ℚ)⌋ ∨
        ((q = ⌊(a.V : ℚ) / (b.V : ℚ)⌋ + 1 ∨ q = ⌊(a.V : ℚ) / (b.V : ℚ)⌋ - 1) ∧
          ∃ j : ℤ, 2 ^ 98 * |a.V - j * b.V| ≤ |a.V|)) := by
  obtain ⟨q, dV, dv, -, hE, -⟩ := euclid_tolerance_c19 ha hwa hb hwb hA hB hR
  rw [ediv_floor a.V hpos] at hE
  exact ⟨q, dV, dv, hE⟩

/-- **C19: for `b < 0`, `div_euclid(a, b)` is exactly `ceil(a/b)`**, or adjacent to it — and then `a/b` is within
relative `2^-98` of an integer -/
theorem div_euclid_ceil_c19 {a b : TwoFloat} (ha : a.Valid) (hwa : a.WF) (hb : b.Valid) (hwb : b.WF)
    (hA : 2 ^ 674 ≤ a.hi.toInt.natAbs ∧ a.hi.toInt.natAbs ≤ 2 ^ 1474)
    (hB : 2 ^ 674 ≤ b.hi.toInt.natAbs ∧ b.hi.toInt.natAbs ≤ 2 ^ 1474)
    (hR : |a.V| ≤ 2 ^ 100 * |b.V|) (hneg : b.V < 0) :
    ∃ q : ℤ, (TwoFloat.div_euclid a b).V = q * (unit : ℤ) ∧ (TwoFloat.div_euclid a b).Valid ∧
      (q = ⌈(a.V : ℚ) / (b.V : ℚ)⌉ ∨
        ((q = ⌈(a.V : ℚ) / (b.V : ℚ)⌉ + 1 ∨ q = ⌈(a.V : ℚ) / (b.V : ℚ)⌉ - 1) ∧
          ∃ j : ℤ, 2 ^ 98 * |a.V - j * b.V| ≤ |a.V|)) := by
  obtain ⟨q, dV, dv, -, hE, -⟩ := euclid_tolerance_c19 ha hwa hb hwb hA hB hR
  rw [ediv_ceil a.V hneg] at hE
  exact ⟨q, dV, dv, hE⟩

/-! ## instances on concrete operands (hypotheses discharged by kernel evaluation of the Model) -/

/-- `0.1` -/
def tenth : F64 := f64lit 0x3fb999999999999a
/-- `10^10` -/
def e10 : F64 := f64lit 0x4202a05f20000000
/-- `−π` -/
def negPi : TwoFloat := ⟨F64.neg consts.PI.hi, F64.neg consts.PI.lo⟩

/-- `π % 0.1`: the hypotheses of `rem_tf_tolerance_c19` hold, the computed quotient is `31` -/
example :
    ∃ K : ℤ,
      (K = consts.PI.V.tdiv tenth.toInt ∨
        ((K = consts.PI.V.tdiv tenth.toInt + 1 ∨ K = consts.PI.V.tdiv tenth.toInt - 1) ∧
          ∃ j : ℤ, 2 ^ 98 * |consts.PI.V - j * tenth.toInt| ≤ |consts.PI.V|)) ∧
      (consts.PI %. tenth).Valid ∧
      2 ^ 106 * |(consts.PI %. tenth).V - (consts.PI.V - K * tenth.toInt)| ≤ 16 * max |consts.PI.V| |tenth.toInt| :=
  rem_tf_tolerance_c19 (a := consts.PI) (f := tenth)
    (by decide +kernel) ⟨by decide +kernel, by decide +kernel⟩ (by decide +kernel) (by decide +kernel)
    (by decide +kernel) (by decide +kernel) (by decide +kernel)

example : (TwoFloat.trunc (consts.PI /. tenth)).V = 31 * (unit : ℤ) ∧ consts.PI.V.tdiv tenth.toInt = 31 := by
  decide +kernel

/-- `π %= 0.1` -/
example :
    (arithmetic.impl_RemAssign_f64_for_TwoFloat.rem_assign consts.PI tenth).Valid :=
  (rem_assign_tf_tolerance_c19 (a := consts.PI) (f := tenth)
    (by decide +kernel) ⟨by decide +kernel, by decide +kernel⟩ (by decide +kernel) (by decide +kernel)
    (by decide +kernel) (by decide +kernel) (by decide +kernel)).2.2.choose_spec.2.1

/-- `10^10 % π`: the hypotheses of `rem_ft_tolerance_c19` hold, the computed quotient is `3183098861` -/
example :
    ∃ K : ℤ,
      (K = e10.toInt.tdiv consts.PI.V ∨
        ((K = e10.toInt.tdiv consts.PI.V + 1 ∨ K = e10.toInt.tdiv consts.PI.V - 1) ∧
          ∃ j : ℤ, 2 ^ 98 * |e10.toInt - j * consts.PI.V| ≤ |e10.toInt|)) ∧
      (e10 %. consts.PI).Valid ∧
      2 ^ 106 * |(e10 %. consts.PI).V - (e10.toInt - K * consts.PI.V)| ≤ 16 * max |e10.toInt| |consts.PI.V| :=
  rem_ft_tolerance_c19 (f := e10) (b := consts.PI)
    (by decide +kernel) (by decide +kernel) (by decide +kernel) ⟨by decide +kernel, by decide +kernel⟩
    (by decide +kernel) (by decide +kernel) (by decide +kernel)

example : (TwoFloat.trunc (e10 /. consts.PI)).V = 3183098861 * (unit : ℤ) ∧
    e10.toInt.tdiv consts.PI.V = 3183098861 := by
  decide +kernel

/-- `div_euclid(−π, e) = −2`, `rem_euclid(−π, e) ≈ 2e − π`: the hypotheses of `euclid_tolerance_c19` hold -/
example :
    ∃ q : ℤ,
      (TwoFloat.div_euclid negPi consts.E).V = q * (unit : ℤ) ∧ (TwoFloat.div_euclid negPi consts.E).Valid ∧
      (TwoFloat.rem_euclid negPi consts.E).Valid ∧
      (q = negPi.V / consts.E.V ∨
        ((q = negPi.V / consts.E.V + 1 ∨ q = negPi.V / consts.E.V - 1) ∧
          ∃ j : ℤ, 2 ^ 98 * |negPi.V - j * consts.E.V| ≤ |negPi.V|)) ∧
      2 ^ 106 * |(TwoFloat.rem_euclid negPi consts.E).V - (negPi.V - q * consts.E.V)|
        ≤ 16 * max |negPi.V| |consts.E.V| ∧
      -(31 * max |negPi.V| |consts.E.V|) ≤ 2 ^ 106 * (TwoFloat.rem_euclid negPi consts.E).V ∧
      2 ^ 106 * (TwoFloat.rem_euclid negPi consts.E).V ≤ 2 ^ 106 * |consts.E.V| + 27 * max |negPi.V| |consts.E.V| :=
  euclid_tolerance_c19 (a := negPi) (b := consts.E)
    (by decide +kernel) ⟨by decide +kernel, by decide +kernel⟩
    (by decide +kernel) ⟨by decide +kernel, by decide +kernel⟩
    (by decide +kernel) (by decide +kernel) (by decide +kernel)

example : (TwoFloat.div_euclid negPi consts.E).V = -2 * (unit : ℤ) ∧ negPi.V / consts.E.V = -2 ∧
    (negPi %. consts.E).V < 0 ∧ 0 < (TwoFloat.rem_euclid negPi consts.E).V := by
  decide +kernel

/-! ## counterexamples: the escapes of the clause cannot be removed

All operands below are valid, well-formed, in the property's range and found by random search through the Model
(`a = RN_dd(k·b)` for an integer `k`, so that `a/b` is within `u²` of the integer `k`). -/

/-- `a₁ ≈ −920707·b₁` -/
def a1 : TwoFloat := ⟨f64lit 13921329241743053854, f64lit 13663908064794870112⟩
def b1 : TwoFloat := ⟨f64lit 4608608283076756176, f64lit 13590793630581370847⟩

example : a1.Valid ∧ b1.Valid ∧ (2 ^ 674 ≤ a1.hi.toInt.natAbs ∧ a1.hi.toInt.natAbs ≤ 2 ^ 1474) ∧
    (2 ^ 674 ≤ b1.hi.toInt.natAbs ∧ b1.hi.toInt.natAbs ≤ 2 ^ 1474) ∧ |a1.V| ≤ 2 ^ 100 * |b1.V| := by
  decide +kernel

/-- **`rem_euclid` can be negative**: here `div_euclid(a₁, b₁) = −920707 = floor(a₁/b₁)` is right, the exact residual
`a₁ − q·b₁` is `≈ +0.14u²|a₁|`, the computed remainder `a₁ % b₁` carries an error of `≈ −0.23u²|a₁|`, and
`rem_euclid(a₁, b₁) ≈ −0.09u²|a₁| < 0`.  So `0 ≤ rem_euclid` holds only up to the tolerance. -/
example : (TwoFloat.rem_euclid a1 b1).V < 0 ∧
    (TwoFloat.div_euclid a1 b1).V = -920707 * (unit : ℤ) ∧ a1.V / b1.V = -920707 ∧
    0 ≤ a1.V - (-920707) * b1.V := by
  decide +kernel

/-- `a₂ = −2^-200`, `b₂ = 1 + 2^-53 − 2^-105` (a pair with a full low word) -/
def a2 : TwoFloat := ⟨F64.fin true (2 ^ 874), F64.zero⟩
def b2 : TwoFloat := ⟨F64.fin false (2 ^ 1074), F64.fin false (2 ^ 969 * (2 ^ 52 - 1))⟩

example : a2.Valid ∧ b2.Valid ∧ (2 ^ 674 ≤ a2.hi.toInt.natAbs ∧ a2.hi.toInt.natAbs ≤ 2 ^ 1474) ∧
    (2 ^ 674 ≤ b2.hi.toInt.natAbs ∧ b2.hi.toInt.natAbs ≤ 2 ^ 1474) ∧ |a2.V| ≤ 2 ^ 100 * |b2.V| := by
  decide +kernel

/-- **`rem_euclid` can be equal to `|b|`**: `rem_euclid(−2^-200, b₂) = b₂` exactly (`−2^-200 + b₂` rounds to `b₂`; the
quotient `div_euclid = −1 = floor(a₂/b₂)` is right).  So `rem_euclid < |b|` holds only up to the tolerance. -/
example : TwoFloat.rem_euclid a2 b2 = b2 ∧ 0 < b2.V ∧ (TwoFloat.div_euclid a2 b2).V = -1 * (unit : ℤ) ∧
    a2.V / b2.V = -1 := by
  decide +kernel

/-- `a₃ ≈ −1014031·b₃`, slightly below -/
def a3 : TwoFloat := ⟨f64lit 13924722883424406105, f64lit 4456498022547858344⟩
def b3 : TwoFloat := ⟨f64lit 4611571831459673980, f64lit 4367313148146517531⟩

example : a3.Valid ∧ b3.Valid ∧ (2 ^ 674 ≤ a3.hi.toInt.natAbs ∧ a3.hi.toInt.natAbs ≤ 2 ^ 1474) ∧
    (2 ^ 674 ≤ b3.hi.toInt.natAbs ∧ b3.hi.toInt.natAbs ≤ 2 ^ 1474) ∧ |a3.V| ≤ 2 ^ 100 * |b3.V| := by
  decide +kernel

/-- **`div_euclid` can be adjacent to `floor(a/b)`**: `div_euclid(a₃, b₃) = −1014031` but
`floor(a₃/b₃) = −1014032` (`b₃ > 0`; the exact remainder `a₃ − trunc(a₃/b₃)·b₃` is negative but below the error of the
computed one, which comes out `≥ 0`) -/
example : (TwoFloat.div_euclid a3 b3).V = -1014031 * (unit : ℤ) ∧ a3.V / b3.V = -1014032 ∧ 0 < b3.V ∧
    a3.V.tdiv b3.V = -1014031 ∧ 0 ≤ (a3 %. b3).V ∧ a3.V - (-1014031) * b3.V < 0 := by
  decide +kernel

/-- `a₄ ≈ −429991·b₄`, slightly above -/
def a4 : TwoFloat := ⟨f64lit 13918393191002729714, f64lit 4450636125034253879⟩
def b4 : TwoFloat := ⟨f64lit 4610938286306312788, f64lit 13587441915545245203⟩

example : a4.Valid ∧ b4.Valid ∧ (2 ^ 674 ≤ a4.hi.toInt.natAbs ∧ a4.hi.toInt.natAbs ≤ 2 ^ 1474) ∧
    (2 ^ 674 ≤ b4.hi.toInt.natAbs ∧ b4.hi.toInt.natAbs ≤ 2 ^ 1474) ∧ |a4.V| ≤ 2 ^ 100 * |b4.V| := by
  decide +kernel

/-- **the quotient used by `%` can be adjacent to `trunc(a/b)`**: `trunc(a₄ / b₄)` as computed is `−429991`, the
truncation of the exact quotient is `−429990` (here `div_euclid = −429991 = floor(a₄/b₄)` is right) -/
example : (TwoFloat.trunc (a4 /. b4)).V = -429991 * (unit : ℤ) ∧ a4.V.tdiv b4.V = -429990 ∧
    (TwoFloat.div_euclid a4 b4).V = -429991 * (unit : ℤ) ∧ a4.V / b4.V = -429991 := by
  decide +kernel

end C19y
