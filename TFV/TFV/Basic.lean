def hello := "world"
