/-
Prelude.Libm — hand ports of libm 0.2.16 `log`, `log1p`, `log2` (musl/FreeBSD ports; not correctly rounded).
The same sequence of binary64 operations and bit manipulations as src/math/{log,log1p,log2}.rs.
They only seed Newton iterations in the crate.  Tied to the real functions by the correspondence run only.
-/
import TFV.Prelude.Classes

namespace Libm
open F64

def LN2_HI : F64 := f64lit 0x3fe62e42fee00000
def LN2_LO : F64 := f64lit 0x3dea39ef35793c76
def LG1 : F64 := f64lit 0x3fe5555555555593
def LG2 : F64 := f64lit 0x3fd999999997fa04
def LG3 : F64 := f64lit 0x3fd2492494229359
def LG4 : F64 := f64lit 0x3fcc71c51d8e78af
def LG5 : F64 := f64lit 0x3fc7466496cb03de
def LG6 : F64 := f64lit 0x3fc39a09d078c69f
def LG7 : F64 := f64lit 0x3fc2f112df3e5244
def IVLN2HI : F64 := f64lit 0x3ff7154765200000
def IVLN2LO : F64 := f64lit 0x3de705fc2eefa200
def x1p54 : F64 := f64lit 0x4350000000000000
def c0 : F64 := f64lit 0x0000000000000000
def c1 : F64 := f64lit 0x3ff0000000000000
def cm1 : F64 := f64lit 0xbff0000000000000
def c2 : F64 := f64lit 0x4000000000000000
def chalf : F64 := f64lit 0x3fe0000000000000

/-- the polynomial kernel shared by the three functions: returns (hfsq, s, r) for f -/
def kernel (f : F64) : F64 × F64 × F64 :=
  let hfsq := mul (mul chalf f) f
  let s := div f (add c2 f)
  let z := mul s s
  let w := mul z z
  let t1 := mul w (add LG2 (mul w (add LG4 (mul w LG6))))
  let t2 := mul z (add LG1 (mul w (add LG3 (mul w (add LG5 (mul w LG7))))))
  (hfsq, s, add t2 t1)

/-- reduce into [sqrt(2)/2, sqrt(2)]: returns (k increment, reduced x) from the bit pattern ui -/
def reduce (ui : Nat) : Int × F64 :=
  let hx := ui / 2^32 + (0x3ff00000 - 0x3fe6a09e)
  let k : Int := ((hx / 2^20 : Nat) : Int) - 0x3ff
  let hx' := hx % 2^20 + 0x3fe6a09e
  (k, from_bits_nat (hx' * 2^32 + ui % 2^32))

def log (x0 : F64) : F64 :=
  let ui0 := x0.to_bits_nat
  let hx0 := ui0 / 2^32
  if hx0 < 0x00100000 ∨ hx0 / 2^31 ≠ 0 then
    if (ui0 * 2) % 2^64 = 0 then div cm1 (mul x0 x0)
    else if hx0 / 2^31 ≠ 0 then div (sub x0 x0) c0
    else
      let x := mul x0 x1p54
      go (-54) x.to_bits_nat
  else if hx0 ≥ 0x7ff00000 then x0
  else if hx0 = 0x3ff00000 ∧ ui0 % 2^32 = 0 then c0
  else go 0 ui0
where
  go (k0 : Int) (ui : Nat) : F64 :=
    let (dkI, x) := reduce ui
    let k := k0 + dkI
    let f := sub x c1
    let (hfsq, s, r) := kernel f
    let dk := F64.ofInt k
    add (add (sub (add (mul s (add hfsq r)) (mul dk LN2_LO)) hfsq) f) (mul dk LN2_HI)

def log2 (x0 : F64) : F64 :=
  let ui0 := x0.to_bits_nat
  let hx0 := ui0 / 2^32
  if hx0 < 0x00100000 ∨ hx0 / 2^31 > 0 then
    if (ui0 * 2) % 2^64 = 0 then div cm1 (mul x0 x0)
    else if hx0 / 2^31 > 0 then div (sub x0 x0) c0
    else
      let x := mul x0 x1p54
      go (-54) x.to_bits_nat
  else if hx0 ≥ 0x7ff00000 then x0
  else if hx0 = 0x3ff00000 ∧ ui0 % 2^32 = 0 then c0
  else go 0 ui0
where
  go (k0 : Int) (ui : Nat) : F64 :=
    let (dkI, x) := reduce ui
    let k := k0 + dkI
    let f := sub x c1
    let (hfsq, s, r) := kernel f
    let hi0 := sub f hfsq
    let hi := from_bits_nat (hi0.to_bits_nat / 2^32 * 2^32)
    let lo := add (sub (sub f hi) hfsq) (mul s (add hfsq r))
    let val_hi := mul hi IVLN2HI
    let val_lo := add (mul (add lo hi) IVLN2LO) (mul lo IVLN2HI)
    let y := F64.ofInt k
    let w := add y val_hi
    let val_lo := add val_lo (add (sub y w) val_hi)
    add val_lo w

def log1p (x : F64) : F64 :=
  let ui0 := x.to_bits_nat
  let hx := ui0 / 2^32
  if hx < 0x3fda827a ∨ hx / 2^31 > 0 then
    if hx ≥ 0xbff00000 then
      if F64.eq x cm1 then div x c0 else div (sub x x) c0
    else if (hx * 2) % 2^32 < (0x3ca00000 * 2) % 2^32 then x
    else if hx ≤ 0xbfd2bec4 then tail 0 c0 x
    else big
  else if hx ≥ 0x7ff00000 then x
  else big
where
  tail (k : Int) (c f : F64) : F64 :=
    let (hfsq, s, r) := kernel f
    let dk := F64.ofInt k
    add (add (sub (add (mul s (add hfsq r)) (add (mul dk LN2_LO) c)) hfsq) f) (mul dk LN2_HI)
  big : F64 :=
    let u := add c1 x
    let ui := u.to_bits_nat
    let hu := ui / 2^32 + (0x3ff00000 - 0x3fe6a09e)
    let k : Int := ((hu / 2^20 : Nat) : Int) - 0x3ff
    let c :=
      if k < 54 then
        div (if k ≥ 2 then sub c1 (sub u x) else sub x (sub u c1)) u
      else c0
    let hu' := hu % 2^20 + 0x3fe6a09e
    let f := sub (from_bits_nat (hu' * 2^32 + ui % 2^32)) c1
    tail k c f

end Libm
