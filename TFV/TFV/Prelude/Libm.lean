/-
Prelude.Libm — hand ports of libm 0.2.16 `log`, `log1p`, `log2` (musl/FreeBSD ports; not correctly rounded).
They only seed Newton iterations in the crate.  Tied to the real functions by the correspondence run only.
-/
import TFV.Prelude.Classes

namespace Libm
-- placeholders until the ports land (see DESIGN §2.3); every function that reaches them is excluded from claims
def log (x : F64) : F64 := x
def log1p (x : F64) : F64 := x
def log2 (x : F64) : F64 := x
end Libm
