/-
Prelude.Classes — the small heterogeneous classes the translator targets.  The translator does not
resolve Rust's operator / conversion overloading itself: it emits calls to these classes and registers
each translated `impl` as an instance; Lean's elaborator then selects the instance from the (reference-
erased) operand types, as rustc selects the impl.
-/
import TFV.Prelude.Int

class RAdd (α β : Type) (γ : outParam Type) where add : α → β → γ
class RSub (α β : Type) (γ : outParam Type) where sub : α → β → γ
class RMul (α β : Type) (γ : outParam Type) where mul : α → β → γ
class RDiv (α β : Type) (γ : outParam Type) where div : α → β → γ
class RRem (α β : Type) (γ : outParam Type) where rem : α → β → γ
class RNeg (α : Type) (γ : outParam Type) where neg : α → γ
class RPartialEq (α β : Type) where eq : α → β → Bool
class RPartialOrd (α β : Type) where partial_cmp : α → β → Option ROrdering
class RFrom (α β : Type) where «from» : α → β
class RInto (α β : Type) where into : α → β
class RCast (α β : Type) where cast : α → β
class RIndex (α ι : Type) (γ : outParam Type) where
  index : α → ι → γ
  inBounds : α → ι → Bool

infixl:65 " +. " => RAdd.add
infixl:65 " -. " => RSub.sub
infixl:70 " *. " => RMul.mul
infixl:70 " /. " => RDiv.div
infixl:70 " %. " => RRem.rem
infix:50 " ==. " => RPartialEq.eq

def RPartialEq.ne {α β} [RPartialEq α β] (a : α) (b : β) : Bool := !(RPartialEq.eq a b)
infix:50 " !=. " => RPartialEq.ne

/-- Rust's provided methods of `PartialOrd` -/
def RPartialOrd.lt {α β} [RPartialOrd α β] (a : α) (b : β) : Bool :=
  match RPartialOrd.partial_cmp a b with | some .Less => true | _ => false
def RPartialOrd.le {α β} [RPartialOrd α β] (a : α) (b : β) : Bool :=
  match RPartialOrd.partial_cmp a b with | some .Less => true | some .Equal => true | _ => false
def RPartialOrd.gt {α β} [RPartialOrd α β] (a : α) (b : β) : Bool :=
  match RPartialOrd.partial_cmp a b with | some .Greater => true | _ => false
def RPartialOrd.ge {α β} [RPartialOrd α β] (a : α) (b : β) : Bool :=
  match RPartialOrd.partial_cmp a b with | some .Greater => true | some .Equal => true | _ => false
infix:50 " <. " => RPartialOrd.lt
infix:50 " <=. " => RPartialOrd.le
infix:50 " >. " => RPartialOrd.gt
infix:50 " >=. " => RPartialOrd.ge

instance {α β} [RFrom α β] : RInto α β := ⟨RFrom.from⟩
instance {α} : RFrom α α := ⟨id⟩

/-! f64 primitives -/
instance : RAdd F64 F64 F64 := ⟨F64.add⟩
instance : RSub F64 F64 F64 := ⟨F64.sub⟩
instance : RMul F64 F64 F64 := ⟨F64.mul⟩
instance : RDiv F64 F64 F64 := ⟨F64.div⟩
instance : RRem F64 F64 F64 := ⟨F64.rem⟩
instance : RNeg F64 F64 := ⟨F64.neg⟩
instance : RPartialEq F64 F64 := ⟨F64.eq⟩
instance : RPartialOrd F64 F64 := ⟨F64.partial_cmp⟩

/-! machine integers -/
instance {s b} : RAdd (IntN s b) (IntN s b) (IntN s b) := ⟨IntN.add⟩
instance {s b} : RSub (IntN s b) (IntN s b) (IntN s b) := ⟨IntN.sub⟩
instance {s b} : RMul (IntN s b) (IntN s b) (IntN s b) := ⟨IntN.mul⟩
instance {s b} : RDiv (IntN s b) (IntN s b) (IntN s b) := ⟨IntN.div⟩
instance {s b} : RRem (IntN s b) (IntN s b) (IntN s b) := ⟨IntN.rem⟩
instance {s b} : RNeg (IntN s b) (IntN s b) := ⟨IntN.neg⟩
instance {s b} : RPartialEq (IntN s b) (IntN s b) := ⟨IntN.beq⟩
instance {s b} : RPartialOrd (IntN s b) (IntN s b) :=
  ⟨fun x y => some (if x.v < y.v then .Less else if x.v = y.v then .Equal else .Greater)⟩
instance {s b} : AndOp (IntN s b) := ⟨IntN.land⟩
instance {s b} : OrOp (IntN s b) := ⟨IntN.lor⟩
instance {s b} : XorOp (IntN s b) := ⟨IntN.xor⟩
instance {s b s' b'} : HShiftLeft (IntN s b) (IntN s' b') (IntN s b) := ⟨fun x k => IntN.shl x k.v⟩
instance {s b s' b'} : HShiftRight (IntN s b) (IntN s' b') (IntN s b) := ⟨fun x k => IntN.shr x k.v⟩

instance : RPartialEq Bool Bool := ⟨fun a b => a == b⟩

/-! `as` casts -/
instance {s b s' b'} : RCast (IntN s b) (IntN s' b') := ⟨fun x => IntN.wrap x.v⟩
instance {s b} : RCast (IntN s b) F64 := ⟨fun x => F64.ofInt x.v⟩
instance {s b} : RCast F64 (IntN s b) := ⟨fun x => ⟨F64.toIntSat s b x⟩⟩
instance : RCast F64 F64 := ⟨id⟩
instance : RCast F64 F32 := ⟨F64.toF32⟩
instance : RCast F32 F64 := ⟨F32.toF64⟩
instance : RCast F32 F32 := ⟨id⟩

/-! lossless `From` between primitives used by the crate (`f64::from(i32)` etc.) -/
instance {s b} : RFrom (IntN s b) F64 := ⟨fun x => F64.ofInt x.v⟩
instance : RFrom F32 F64 := ⟨F32.toF64⟩

/-- `f64::to_bits` / `from_bits` at the u64 type -/
def F64.to_bits (x : F64) : U64 := ⟨(x.to_bits_nat : Int)⟩
def F64.from_bits (b : U64) : F64 := F64.from_bits_nat b.bitsNat

/-- the double-double type: `#[repr(C)] struct TwoFloat { hi: f64, lo: f64 }` -/
structure TwoFloat where
  hi : F64
  lo : F64
deriving DecidableEq, Repr, Inhabited

/-- `enum TwoFloatError` -/
inductive TwoFloatError where
  | ConversionError
  | ParseError
deriving DecidableEq, Repr, Inhabited

/-- `Result<T, TwoFloatError>` -/
abbrev RResult (α : Type) := Except TwoFloatError α

class RTryFrom (α β : Type) where try_from : α → RResult β

/-- `[f64; 2]` -/
structure Arr2 where
  a0 : F64
  a1 : F64
deriving DecidableEq, Repr, Inhabited

/-- constant tables (`[T; N]`, slices) -/
instance {α} [Inhabited α] {s b} : RIndex (List α) (IntN s b) α :=
  ⟨fun l i => l.getD i.v.toNat default, fun l i => decide (0 ≤ i.v) && decide (i.v.toNat < l.length)⟩

/-- `polynomial!(x, table)`: `let mut it = table.iter().rev(); let init = it.next().unwrap(); it.fold(*init, f)` -/
def polyFold {α} [Inhabited α] (table : List α) (f : α → α → α) : α :=
  match table.reverse with
  | [] => default
  | init :: rest => rest.foldl f init

/-- float literal from its bit pattern -/
def f64lit (bits : Nat) : F64 := F64.from_bits_nat bits

instance {s b} : Neg (IntN s b) := ⟨IntN.neg⟩

/- Rust's provided `lt le gt ge` of `PartialOrd`, as functions of the `partial_cmp` result -/
namespace ROrd
def isLt : Option ROrdering → Bool | some .Less => true | _ => false
def isLe : Option ROrdering → Bool | some .Less => true | some .Equal => true | _ => false
def isGt : Option ROrdering → Bool | some .Greater => true | _ => false
def isGe : Option ROrdering → Bool | some .Greater => true | some .Equal => true | _ => false
end ROrd
