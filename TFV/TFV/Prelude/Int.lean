/-
Prelude.Int — Rust's machine integers.  One structure family around `Int`.
`+ - * neg abs` are computed in unbounded `Int`; whether a debug build would panic on overflow is the
separate `inRange` check that the translator conjoins into the `.pf` ("panic-free") predicate of each
function.  Casts (`as`) wrap / saturate exactly as the Rust reference says.
-/
import TFV.Prelude.F64

structure IntN (signed : Bool) (bits : Nat) where
  v : Int
deriving DecidableEq, Repr, Inhabited

abbrev I8 := IntN true 8
abbrev I16 := IntN true 16
abbrev I32 := IntN true 32
abbrev I64 := IntN true 64
abbrev I128 := IntN true 128
abbrev Isize := IntN true 64
abbrev U8 := IntN false 8
abbrev U16 := IntN false 16
abbrev U32 := IntN false 32
abbrev U64 := IntN false 64
abbrev U128 := IntN false 128
abbrev Usize := IntN false 64

namespace IntN
variable {s : Bool} {b : Nat}

def minV (s : Bool) (b : Nat) : Int := if s then -(2^(b-1) : Nat) else 0
def maxV (s : Bool) (b : Nat) : Int := if s then (2^(b-1) : Nat) - 1 else (2^b : Nat) - 1

def MIN : IntN s b := ⟨minV s b⟩
def MAX : IntN s b := ⟨maxV s b⟩

/-- does the mathematical value fit the type? -/
def fits (s : Bool) (b : Nat) (z : Int) : Bool := decide (minV s b ≤ z) && decide (z ≤ maxV s b)
def inRange (x : IntN s b) : Bool := fits s b x.v

/-- two's-complement wrap of an arbitrary integer into the type -/
def wrapV (s : Bool) (b : Nat) (z : Int) : Int :=
  let m := z % (2^b : Nat)
  if s && decide (m ≥ (2^(b-1) : Nat)) then m - (2^b : Nat) else m
def wrap (z : Int) : IntN s b := ⟨wrapV s b z⟩

/-- the unsigned two's-complement residue -/
def bitsNat (x : IntN s b) : Nat := (x.v % (2^b : Nat)).toNat

instance : OfNat (IntN s b) n := ⟨⟨n⟩⟩

def add (x y : IntN s b) : IntN s b := ⟨x.v + y.v⟩
def sub (x y : IntN s b) : IntN s b := ⟨x.v - y.v⟩
def mul (x y : IntN s b) : IntN s b := ⟨x.v * y.v⟩
def neg (x : IntN s b) : IntN s b := ⟨-x.v⟩
def div (x y : IntN s b) : IntN s b := ⟨Int.tdiv x.v y.v⟩
def rem (x y : IntN s b) : IntN s b := ⟨Int.tmod x.v y.v⟩
def abs (x : IntN s b) : IntN s b := ⟨x.v.natAbs⟩
def unsigned_abs (x : IntN true b) : IntN false b := ⟨x.v.natAbs⟩
def is_negative (x : IntN s b) : Bool := decide (x.v < 0)
def is_positive (x : IntN s b) : Bool := decide (x.v > 0)

def land (x y : IntN s b) : IntN s b := wrap (Nat.land x.bitsNat y.bitsNat)
def lor (x y : IntN s b) : IntN s b := wrap (Nat.lor x.bitsNat y.bitsNat)
def xor (x y : IntN s b) : IntN s b := wrap (Nat.xor x.bitsNat y.bitsNat)
/-- `<<`: bits shifted out are lost (no panic); a shift amount ≥ width panics in debug (checked by pf) -/
def shl (x : IntN s b) (k : Int) : IntN s b := wrap (x.v * (2^k.toNat : Nat))
/-- `>>`: arithmetic for signed, logical for unsigned = floor division -/
def shr (x : IntN s b) (k : Int) : IntN s b := ⟨x.v / (2^k.toNat : Nat)⟩

def lt (x y : IntN s b) : Bool := decide (x.v < y.v)
def le (x y : IntN s b) : Bool := decide (x.v ≤ y.v)
def beq (x y : IntN s b) : Bool := decide (x.v = y.v)

end IntN

/-! casts -/

/-- `n as f64`: round to nearest even -/
def F64.ofInt (z : Int) : F64 :=
  F64.roundSigned (z * (2^1074 : Nat)) 1 false

/-- `x as iN/uN`: truncate toward zero, saturate, NaN ↦ 0 -/
def F64.toIntSat (s : Bool) (b : Nat) : F64 → Int
  | .nan => 0
  | .inf neg => if neg then IntN.minV s b else IntN.maxV s b
  | .fin neg n =>
    let t : Int := (n / F64.unit : Nat)
    let z := if neg then -t else t
    if z < IntN.minV s b then IntN.minV s b else if z > IntN.maxV s b then IntN.maxV s b else z

/-- binary32 values, stored as the binary64 value they denote -/
structure F32 where
  v : F64
deriving DecidableEq, Repr, Inhabited

/-- `x as f32`: round to nearest even to 24 significant bits, exponent range of binary32 -/
def F64.toF32 : F64 → F32
  | .nan => ⟨.nan⟩
  | .inf s => ⟨.inf s⟩
  | .fin s n =>
    -- binary32 subnormal spacing is 2^-149 = 2^925 units
    let u := 2^925
    let fl := n / u
    let r :=
      if fl < 2^24 then F64.rint n u * u
      else
        let e := Nat.log2 fl - 23
        F64.rint n (u * 2^e) * (u * 2^e)
    -- overflow threshold: results ≥ 2^128 (scaled 2^(128+1074))
    if r ≥ 2^(128+1074) then ⟨.inf s⟩ else ⟨.fin s r⟩

def F32.toF64 (x : F32) : F64 := x.v

/-- bit pattern of a binary32 value -/
def F32.to_bits_nat : F32 → Nat
  | ⟨.nan⟩ => 0x7fc00000
  | ⟨.inf s⟩ => (if s then 2^31 else 0) + 0x7f800000
  | ⟨.fin s n⟩ =>
    let m := n / 2^925
    (if s then 2^31 else 0) +
      (if m < 2^24 then m
       else
         let e := Nat.log2 m - 23
         (e + 1) * 2^23 + (m / 2^e - 2^23))

def F32.from_bits_nat (b : Nat) : F32 :=
  let s := decide ((b / 2^31) % 2 = 1)
  let ex := (b / 2^23) % 256
  let m := b % 2^23
  if ex = 0 then ⟨.fin s (m * 2^925)⟩
  else if ex = 255 then (if m = 0 then ⟨.inf s⟩ else ⟨.nan⟩)
  else ⟨.fin s ((2^23 + m) * 2^(ex - 1) * 2^925)⟩
