/-
Prelude.F64 — executable, proof-friendly model of IEEE-754 binary64 (round-to-nearest-even).

Every finite double is an integer multiple of 2^-1074.  `fin s n` stands for (-1)^s · n · 2^-1074.
All NaNs are one value.  Core Lean only (no Mathlib) so that the driver links as a native exe.
-/

inductive F64 where
  | nan
  | inf (neg : Bool)
  | fin (neg : Bool) (n : Nat)
deriving DecidableEq, Repr, Inhabited

inductive FpCategory where
  | Nan | Infinite | Zero | Subnormal | Normal
deriving DecidableEq, Repr, Inhabited

inductive ROrdering where
  | Less | Equal | Greater
deriving DecidableEq, Repr, Inhabited

namespace F64

/-- nearest integer to p/q, ties to even (q > 0) -/
def rint (p q : Nat) : Nat :=
  let fl := p / q
  let r := p % q
  if 2 * r < q then fl
  else if 2 * r > q then fl + 1
  else if fl % 2 = 0 then fl else fl + 1

/-- IEEE round-to-nearest-even of the rational p/q (in units of 2^-1074) to an integer with at most
53 significant bits.  The exponent range is unbounded above here; overflow is handled by `pack`. -/
def roundQ (p q : Nat) : Nat :=
  let fl := p / q
  if fl < 2^53 then rint p q
  else
    let e := Nat.log2 fl - 52
    rint p (q * 2^e) * 2^e

/-- round an integer (units of 2^-1074) to 53 significant bits -/
def rn53 (n : Nat) : Nat := roundQ n 1

/-- largest finite double, (2^53 - 1)·2^971, in units of 2^-1074 -/
def maxFin : Nat := (2^53 - 1) * 2^2045

/-- representable magnitudes -/
def Rep (n : Nat) : Prop := n < 2^53 ∨ (n / 2^(Nat.log2 n - 52)) * 2^(Nat.log2 n - 52) = n

instance (n : Nat) : Decidable (Rep n) := by unfold Rep; infer_instance

/-- well-formed values: what `from_bits` can produce -/
def WF : F64 → Prop
  | fin _ n => Rep n ∧ n ≤ maxFin
  | _ => True

instance (x : F64) : Decidable (WF x) := by
  cases x <;> unfold WF <;> infer_instance

/-- build the result from sign and rounded magnitude, overflowing to infinity -/
def pack (neg : Bool) (m : Nat) : F64 :=
  if m > maxFin then inf neg else fin neg m

def zero : F64 := fin false 0
def negZero : F64 := fin true 0
def one : F64 := fin false (2^1074)

/-- signed scaled integer value of a finite double (0 for non-finite) -/
def toInt : F64 → Int
  | fin false n => (n : Int)
  | fin true n => -(n : Int)
  | _ => 0

/-- round a signed exact value num/den (den > 0, units 2^-1074); `zs` is the sign used for an exact zero -/
def roundSigned (num : Int) (den : Nat) (zs : Bool) : F64 :=
  if num = 0 then fin zs 0
  else pack (decide (num < 0)) (roundQ num.natAbs den)

def neg : F64 → F64
  | nan => nan
  | inf s => inf (!s)
  | fin s n => fin (!s) n

def abs : F64 → F64
  | nan => nan
  | inf _ => inf false
  | fin _ n => fin false n

def add : F64 → F64 → F64
  | nan, _ => nan
  | _, nan => nan
  | inf s, inf t => if s = t then inf s else nan
  | inf s, fin _ _ => inf s
  | fin _ _, inf t => inf t
  | fin s a, fin t b =>
    roundSigned ((fin s a).toInt + (fin t b).toInt) 1 (s && t)

def sub (x y : F64) : F64 := add x (neg y)

def mul : F64 → F64 → F64
  | nan, _ => nan
  | _, nan => nan
  | inf s, inf t => inf (s != t)
  | inf s, fin t b => if b = 0 then nan else inf (s != t)
  | fin s a, inf t => if a = 0 then nan else inf (s != t)
  | fin s a, fin t b =>
    if a * b = 0 then fin (s != t) 0
    else pack (s != t) (roundQ (a * b) (2^1074))

def div : F64 → F64 → F64
  | nan, _ => nan
  | _, nan => nan
  | inf _, inf _ => nan
  | inf s, fin t _ => inf (s != t)
  | fin s _, inf t => fin (s != t) 0
  | fin s a, fin t b =>
    if b = 0 then (if a = 0 then nan else inf (s != t))
    else if a = 0 then fin (s != t) 0
    else pack (s != t) (roundQ (a * 2^1074) b)

/-- fused multiply-add x·y + z, one rounding -/
def fma : F64 → F64 → F64 → F64
  | nan, _, _ => nan
  | _, nan, _ => nan
  | _, _, nan => nan
  | inf s, inf t, z =>
    match z with
    | inf u => if (s != t) = u then inf u else nan
    | _ => inf (s != t)
  | inf s, fin t b, z =>
    if b = 0 then nan else
    match z with
    | inf u => if (s != t) = u then inf u else nan
    | _ => inf (s != t)
  | fin s a, inf t, z =>
    if a = 0 then nan else
    match z with
    | inf u => if (s != t) = u then inf u else nan
    | _ => inf (s != t)
  | fin _ _, fin _ _, inf u => inf u
  | fin s a, fin t b, fin u c =>
    let ps := s != t
    let prod : Int := if ps then -((a * b : Nat) : Int) else ((a * b : Nat) : Int)
    let num : Int := prod + (fin u c).toInt * (2^1074 : Nat)
    roundSigned num (2^1074) (ps && u)

/-- correctly rounded square root -/
def sqrt : F64 → F64
  | nan => nan
  | inf s => if s then nan else inf false
  | fin s n =>
    if n = 0 then fin s 0
    else if s then nan
    else
      -- sqrt(n·2^-1074) in units of 2^-1074 is sqrt(n·2^1074)
      let m := n * 2^1074
      let r := Nat.sqrt m                 -- r ≥ 2^537
      let e := Nat.log2 r - 52
      let q := r / 2^e
      -- compare m with ((2q+1)·2^(e-1))^2
      let h := (2 * q + 1) * 2^(e - 1)
      let q' := if m > h * h then q + 1 else if m < h * h then q else (if q % 2 = 0 then q else q + 1)
      fin false (q' * 2^e)

/-- integer cube root (floor) by bisection on the bit length -/
def icbrt (m : Nat) : Nat :=
  let bits := Nat.log2 m / 3 + 1
  let rec go : Nat → Nat → Nat
    | 0, acc => acc
    | k+1, acc =>
      let cand := acc + 2^k
      if cand * cand * cand ≤ m then go k cand else go k acc
  go (bits + 1) 0

/-- correctly rounded cube root (libm 0.2.16's cbrt is the CORE-MATH correctly rounded one) -/
def cbrt : F64 → F64
  | nan => nan
  | inf s => inf s
  | fin s n =>
    if n = 0 then fin s 0
    else
      -- cbrt(n·2^-1074)·2^1074 = cbrt(n·2^2148)
      let m := n * 2^2148
      let r := icbrt m                   -- r ≥ 2^716
      let e := Nat.log2 r - 52
      let q := r / 2^e
      let h := (2 * q + 1) * 2^(e - 1)
      let q' := if m > h * h * h then q + 1 else if m < h * h * h then q else (if q % 2 = 0 then q else q + 1)
      fin s (q' * 2^e)

/-! comparisons (IEEE: NaN unordered, -0 = +0) -/

def partial_cmp : F64 → F64 → Option ROrdering
  | nan, _ => none
  | _, nan => none
  | inf s, inf t => some (if s = t then .Equal else if s then .Less else .Greater)
  | inf s, fin _ _ => some (if s then .Less else .Greater)
  | fin _ _, inf t => some (if t then .Greater else .Less)
  | fin s a, fin t b =>
    let x := (fin s a).toInt
    let y := (fin t b).toInt
    some (if x < y then .Less else if x = y then .Equal else .Greater)

def eq (x y : F64) : Bool := partial_cmp x y == some .Equal
def ne (x y : F64) : Bool := !(eq x y)
def lt (x y : F64) : Bool := partial_cmp x y == some .Less
def le (x y : F64) : Bool := partial_cmp x y == some .Less || partial_cmp x y == some .Equal
def gt (x y : F64) : Bool := partial_cmp x y == some .Greater
def ge (x y : F64) : Bool := partial_cmp x y == some .Greater || partial_cmp x y == some .Equal

def is_nan : F64 → Bool
  | nan => true
  | _ => false
def is_infinite : F64 → Bool
  | inf _ => true
  | _ => false
def is_finite : F64 → Bool
  | fin _ _ => true
  | _ => false
def is_sign_negative : F64 → Bool
  | nan => false          -- canonical NaN is positive; sign of NaN is outside every property
  | inf s => s
  | fin s _ => s
def is_sign_positive (x : F64) : Bool := !x.is_sign_negative
def is_normal : F64 → Bool
  | fin _ n => decide (2^52 ≤ n)
  | _ => false

def classify : F64 → FpCategory
  | nan => .Nan
  | inf _ => .Infinite
  | fin _ n => if n = 0 then .Zero else if n < 2^52 then .Subnormal else .Normal

def recip (x : F64) : F64 := div one x

/-! bit patterns (Nat-based so that the kernel can evaluate them) -/

def to_bits_nat : F64 → Nat
  | nan => 0x7ff8000000000000
  | inf s => (if s then 2^63 else 0) + 0x7ff0000000000000
  | fin s n =>
    (if s then 2^63 else 0) +
      (if n < 2^53 then n
       else
         let e := Nat.log2 n - 52
         (e + 1) * 2^52 + (n / 2^e - 2^52))

def from_bits_nat (b : Nat) : F64 :=
  let s := decide ((b / 2^63) % 2 = 1)
  let ex := (b / 2^52) % 2048
  let m := b % 2^52
  if ex = 0 then fin s m
  else if ex = 2047 then (if m = 0 then inf s else nan)
  else fin s ((2^52 + m) * 2^(ex - 1))

/-! rounding to integers (all exact) -/

def unit : Nat := 2^1074   -- the integer 1 in scaled units

def trunc : F64 → F64
  | fin s n => fin s (n / unit * unit)
  | x => x

def floor : F64 → F64
  | fin s n =>
    let t := n / unit * unit
    if s && t != n then fin s (t + unit) else fin s t
  | x => x

def ceil : F64 → F64
  | fin s n =>
    let t := n / unit * unit
    if !s && t != n then fin s (t + unit) else fin s t
  | x => x

/-- round half away from zero -/
def round : F64 → F64
  | fin s n =>
    let t := n / unit * unit
    if 2 * (n - t) ≥ unit then fin s (t + unit) else fin s t
  | x => x

/-- libm::modf: (fractional part, integral part), both carrying the sign of x -/
def modf : F64 → F64 × F64
  | nan => (nan, nan)
  | inf s => (fin s 0, inf s)
  | fin s n =>
    let t := n / unit * unit
    (fin s (n - t), fin s t)

def copysign (x y : F64) : F64 :=
  match x with
  | nan => nan
  | inf _ => inf y.is_sign_negative
  | fin _ n => fin y.is_sign_negative n

/-- 2^k as a double for an integer k, with gradual underflow and overflow (libm::exp2 on integer-valued
arguments; the only use in the crate is `no_overlap`) -/
def exp2Int (k : Int) : F64 :=
  if k ≥ 1024 then inf false
  else if k < -1074 then
    -- 2^k with k < -1074: exactly half the smallest subnormal rounds to even (0); anything smaller is 0
    fin false 0
  else fin false (2^((k + 1074).toNat))

/-- libm::exp2, modelled on integer-valued arguments only (non-integers: NaN marker, never reached) -/
def exp2 : F64 → F64
  | nan => nan
  | inf s => if s then fin false 0 else inf false
  | fin s n =>
    if n % unit = 0 then
      exp2Int (if s then -((n / unit : Nat) : Int) else ((n / unit : Nat) : Int))
    else nan

/-- IEEE fmod (Rust's `%` on f64): exact, sign of the dividend -/
def rem : F64 → F64 → F64
  | nan, _ => nan
  | _, nan => nan
  | inf _, _ => nan
  | fin s a, inf _ => fin s a
  | fin s a, fin _ b => if b = 0 then nan else fin s (a % b)

def max (x y : F64) : F64 :=
  if x.is_nan then y else if y.is_nan then x else if lt x y then y else x
def min (x y : F64) : F64 :=
  if x.is_nan then y else if y.is_nan then x else if lt y x then y else x

/-! constants -/
def INFINITY : F64 := inf false
def NEG_INFINITY : F64 := inf true
def NAN : F64 := nan
def MAX : F64 := fin false maxFin
def MIN : F64 := fin true maxFin
def MIN_POSITIVE : F64 := fin false (2^52)
def EPSILON : F64 := fin false (2^(1074 - 52))

end F64
