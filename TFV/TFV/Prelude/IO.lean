/-
Prelude.IO — reading and writing values of the line protocol (DESIGN Appendix B).
Floats travel as hex bit patterns, NaN canonicalised; integers as decimals.
-/
import TFV.Prelude.Classes

namespace IOFmt

def hexDigit (c : Char) : Nat :=
  if '0' ≤ c ∧ c ≤ '9' then c.toNat - '0'.toNat
  else if 'a' ≤ c ∧ c ≤ 'f' then c.toNat - 'a'.toNat + 10
  else if 'A' ≤ c ∧ c ≤ 'F' then c.toNat - 'A'.toNat + 10
  else 0

def parseHex (s : String) : Nat := s.foldl (fun acc c => acc * 16 + hexDigit c) 0

def toHex (n : Nat) (width : Nat) : String :=
  let rec go : Nat → Nat → List Char → List Char
    | 0, _, acc => acc
    | w+1, n, acc => go w (n / 16) (Nat.digitChar (n % 16) :: acc)
  String.ofList (go width n [])

def parseInt (s : String) : Int :=
  if s.startsWith "-" then -((s.drop 1).toString.toNat!) else s.toNat!

def rdF64 (s : String) : F64 := F64.from_bits_nat (parseHex s)
def rdF32 (s : String) : F32 := F32.from_bits_nat (parseHex s)
def rdBool (s : String) : Bool := s == "true"
def rdInt {sg : Bool} {b : Nat} (s : String) : IntN sg b := ⟨parseInt s⟩
def rdTF (h l : String) : TwoFloat := ⟨rdF64 h, rdF64 l⟩

def wr_f64 (x : F64) : String := toHex x.to_bits_nat 16
def wr_f32 (x : F32) : String := toHex x.to_bits_nat 8
def wr_bool (b : Bool) : String := if b then "true" else "false"
def wr_tf (t : TwoFloat) : String := wr_f64 t.hi ++ " " ++ wr_f64 t.lo
def wr_int {sg : Bool} {b : Nat} (x : IntN sg b) : String := toString x.v
def wr_pair (p : F64 × F64) : String := wr_f64 p.1 ++ " " ++ wr_f64 p.2
def wr_tfpair (p : TwoFloat × TwoFloat) : String := wr_tf p.1 ++ " " ++ wr_tf p.2
def wr_arr2 (a : Arr2) : String := wr_f64 a.a0 ++ " " ++ wr_f64 a.a1
def wr_fpcat : FpCategory → String
  | .Nan => "Nan" | .Infinite => "Infinite" | .Zero => "Zero" | .Subnormal => "Subnormal" | .Normal => "Normal"
def wr_optord : Option ROrdering → String
  | none => "None" | some .Less => "Some(Less)" | some .Equal => "Some(Equal)" | some .Greater => "Some(Greater)"
def wr_optint {sg : Bool} {b : Nat} : Option (IntN sg b) → String
  | none => "None" | some x => "Some(" ++ wr_int x ++ ")"
def wr_optf64 : Option F64 → String
  | none => "None" | some x => "Some(" ++ wr_f64 x ++ ")"
def wr_optf32 : Option F32 → String
  | none => "None" | some x => "Some(" ++ wr_f32 x ++ ")"
def wr_opttf : Option TwoFloat → String
  | none => "None" | some x => "Some(" ++ wr_tf x ++ ")"
def wr_resint {sg : Bool} {b : Nat} : RResult (IntN sg b) → String
  | .error _ => "Err" | .ok x => "Ok(" ++ wr_int x ++ ")"
def wr_restf : RResult TwoFloat → String
  | .error _ => "Err" | .ok x => "Ok(" ++ wr_tf x ++ ")"

end IOFmt
