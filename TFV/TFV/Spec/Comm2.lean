/-
Spec.Comm2 — further bit-for-bit identities of the binary64 model used by the bridge (`Delta.lean`):
`x * 2 = x + x`, `x / 2 = x * 0.5`.  They let refactors of that shape pass without breaking the tie to the snapshot.
-/
import TFV.Spec.Rounding
import TFV.Spec.Comm

set_option exponentiation.threshold 3000
namespace F64

theorem two_lit : f64lit 0x4000000000000000 = fin false (2 * 2^1074) := by
  show from_bits_nat _ = _; decide +kernel
theorem half_lit : f64lit 0x3fe0000000000000 = fin false (2^1073) := by
  show from_bits_nat _ = _; decide +kernel

private theorem p1074 : (0:Nat) < 2^1074 := Nat.two_pow_pos _

theorem mul_two (x : F64) : mul x (f64lit 0x4000000000000000) = add x x := by
  rw [two_lit]
  cases x with
  | nan => rfl
  | inf s => cases s <;> simp [mul, add]
  | fin s a =>
    by_cases ha : a = 0
    · subst ha; cases s <;> simp [mul, add, roundSigned, toInt]
    · have h2 : a * (2 * 2^1074) ≠ 0 := by
        have := p1074; exact Nat.mul_ne_zero ha (by omega)
      have hr : roundQ (a * (2 * 2^1074)) (2^1074) = roundQ (a * 2) 1 := by
        have := roundQ_mul_mul_right (a * 2) 1 (2^1074) Nat.one_pos p1074
        rw [Nat.one_mul] at this; rw [← this, Nat.mul_assoc]
      cases s
      · have hn : ((a:Int) + (a:Int)) ≠ 0 := by omega
        have hna : ((a:Int) + (a:Int)).natAbs = a * 2 := by omega
        simp only [mul, add, roundSigned, toInt, h2, if_false, hn, hna, hr]
        have : ¬ ((a:Int) + (a:Int) < 0) := by omega
        simp only [this, decide_false]; rfl
      · have hn : (-(a:Int) + -(a:Int)) ≠ 0 := by omega
        have hna : (-(a:Int) + -(a:Int)).natAbs = a * 2 := by omega
        simp only [mul, add, roundSigned, toInt, h2, if_false, hn, hna, hr]
        have : (-(a:Int) + -(a:Int) < 0) := by omega
        simp only [this, decide_true]; rfl

theorem two_mul (x : F64) : mul (f64lit 0x4000000000000000) x = add x x := by
  rw [mul_comm]; exact mul_two x

theorem div_two (x : F64) : div x (f64lit 0x4000000000000000) = mul x (f64lit 0x3fe0000000000000) := by
  rw [two_lit, half_lit]
  cases x with
  | nan => rfl
  | inf s => cases s <;> simp [mul, div]
  | fin s a =>
    by_cases ha : a = 0
    · subst ha; cases s <;> simp [mul, div]
    · have hb : (2 * 2^1074 : Nat) ≠ 0 := by have := p1074; omega
      have h2 : a * 2^1073 ≠ 0 := Nat.mul_ne_zero ha (Nat.two_pow_pos _).ne'
      have hr : roundQ (a * 2^1074) (2 * 2^1074) = roundQ (a * 2^1073) (2^1074) := by
        have e1 := roundQ_mul_mul_right a 2 (2^1074) (by omega) p1074
        have e2 := roundQ_mul_mul_right a 2 (2^1073) (by omega) (Nat.two_pow_pos _)
        have e3 : (2 * 2^1073 : Nat) = 2^1074 := by decide +kernel
        rw [e1, ← e2, e3]
      simp only [mul, div, hb, ha, h2, if_false, hr]

end F64

theorem rmul_f64_two (x : F64) : (x *. (f64lit 0x4000000000000000)) = (x +. x) := F64.mul_two x
theorem rtwo_mul_f64 (x : F64) : ((f64lit 0x4000000000000000) *. x) = (x +. x) := F64.two_mul x
theorem rdiv_f64_two (x : F64) : (x /. (f64lit 0x4000000000000000)) = (x *. (f64lit 0x3fe0000000000000)) := F64.div_two x
