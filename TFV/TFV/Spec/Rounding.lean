/-
Spec.Rounding — layer L0: theory of `F64.rint`, `F64.roundQ`, `F64.rn53`, `F64.Rep` on natural numbers.
-/
import TFV.Prelude.F64
import Mathlib.Tactic.Ring
import Mathlib.Tactic.Linarith
import Mathlib.Tactic.NormNum
import Mathlib.Tactic.Positivity

namespace F64

/-! ## `rint` -/

/-- Decomposed form of `rint`: on `a * q + r` with `r < q` the three-way case split is on `2 * r` vs `q`. -/
theorem rint_add_mul (a r q : Nat) (hr : r < q) :
    rint (a * q + r) q =
      if 2 * r < q then a else if q < 2 * r then a + 1 else if a % 2 = 0 then a else a + 1 := by
  have hq : 0 < q := by omega
  have h1 : (a * q + r) / q = a := by
    rw [Nat.add_comm, Nat.add_mul_div_right _ _ hq, Nat.div_eq_of_lt hr, Nat.zero_add]
  have h2 : (a * q + r) % q = r := by
    rw [Nat.add_comm, Nat.add_mul_mod_self_right, Nat.mod_eq_of_lt hr]
  simp only [rint, h1, h2, gt_iff_lt]

/-- every `p` decomposes as `a * q + r` with `r < q` -/
theorem exists_divmod (p q : Nat) (hq : 0 < q) : ∃ a r, r < q ∧ p = a * q + r :=
  ⟨p / q, p % q, Nat.mod_lt _ hq, by rw [Nat.mul_comm]; exact (Nat.div_add_mod p q).symm⟩

/-- `rint p q` is the floor or the floor plus one -/
theorem rint_floor_or (p q : Nat) : rint p q = p / q ∨ rint p q = p / q + 1 := by
  unfold rint; simp only []; split_ifs <;> simp

theorem floor_le_rint (p q : Nat) : p / q ≤ rint p q := by
  rcases rint_floor_or p q with h | h <;> omega

theorem rint_le_floor_succ (p q : Nat) : rint p q ≤ p / q + 1 := by
  rcases rint_floor_or p q with h | h <;> omega

/-- upper half of `|rint p q · q − p| ≤ q/2` -/
theorem rint_bounds_upper (p q : Nat) (hq : 0 < q) : 2 * (rint p q * q) ≤ 2 * p + q := by
  obtain ⟨a, r, hr, rfl⟩ := exists_divmod p q hq
  rw [rint_add_mul _ _ _ hr]
  split_ifs <;> (try rw [Nat.add_mul]) <;> omega

/-- lower half of `|rint p q · q − p| ≤ q/2` -/
theorem rint_bounds_lower (p q : Nat) (hq : 0 < q) : 2 * p ≤ 2 * (rint p q * q) + q := by
  obtain ⟨a, r, hr, rfl⟩ := exists_divmod p q hq
  rw [rint_add_mul _ _ _ hr]
  split_ifs <;> (try rw [Nat.add_mul]) <;> omega

/-- `|rint p q · q − p| ≤ q/2`, as two integer inequalities -/
theorem rint_bounds (p q : Nat) (hq : 0 < q) :
    2 * (rint p q * q) ≤ 2 * p + q ∧ 2 * p ≤ 2 * (rint p q * q) + q :=
  ⟨rint_bounds_upper p q hq, rint_bounds_lower p q hq⟩

/-- exact tie from above: the even neighbour is chosen -/
theorem rint_tie_even_upper (p q : Nat) (hq : 0 < q) (h : 2 * p + q = 2 * (rint p q * q)) :
    rint p q % 2 = 0 := by
  obtain ⟨a, r, hr, rfl⟩ := exists_divmod p q hq
  rw [rint_add_mul _ _ _ hr] at h ⊢
  split_ifs at h ⊢ <;> (try rw [Nat.add_mul] at h) <;> omega

/-- exact tie from below: the even neighbour is chosen -/
theorem rint_tie_even_lower (p q : Nat) (hq : 0 < q) (h : 2 * p = 2 * (rint p q * q) + q) :
    rint p q % 2 = 0 := by
  obtain ⟨a, r, hr, rfl⟩ := exists_divmod p q hq
  rw [rint_add_mul _ _ _ hr] at h ⊢
  split_ifs at h ⊢ <;> (try rw [Nat.add_mul] at h) <;> omega

/-- ties go to even -/
theorem rint_tie_even (p q : Nat) (hq : 0 < q)
    (h : 2 * p + q = 2 * (rint p q * q) ∨ 2 * p = 2 * (rint p q * q) + q) : rint p q % 2 = 0 :=
  h.elim (rint_tie_even_upper p q hq) (rint_tie_even_lower p q hq)

/-- Characterisation (uniqueness) of `rint`: the only `k` within `q/2` of `p/q` that is even in the tie
cases is `rint p q`. -/
theorem rint_eq_of (p q k : Nat) (hq : 0 < q)
    (hu : 2 * (k * q) ≤ 2 * p + q) (hl : 2 * p ≤ 2 * (k * q) + q)
    (hte : 2 * p + q = 2 * (k * q) ∨ 2 * p = 2 * (k * q) + q → k % 2 = 0) : rint p q = k := by
  obtain ⟨a, r, hr, rfl⟩ := exists_divmod p q hq
  rw [rint_add_mul _ _ _ hr]
  have hk : k = a ∨ k = a + 1 := by
    rcases Nat.lt_or_ge k a with h | h
    · exfalso
      have := Nat.mul_le_mul_right q (show k + 1 ≤ a from h)
      rw [Nat.add_mul] at this; omega
    · rcases Nat.lt_or_ge (a + 1) k with h' | h'
      · exfalso
        have := Nat.mul_le_mul_right q (show a + 2 ≤ k from h')
        rw [Nat.add_mul] at this; omega
      · omega
  rcases hk with rfl | rfl
  · split_ifs <;> omega
  · rw [Nat.add_mul] at hu hl hte
    split_ifs <;> omega

/-- `rint` is exact on integers -/
theorem rint_mul_left (k q : Nat) (hq : 0 < q) : rint (k * q) q = k := by
  have := rint_add_mul k 0 q hq
  simpa [hq] using this

theorem rint_mul_right (k q : Nat) (hq : 0 < q) : rint (q * k) q = k := by
  rw [Nat.mul_comm]; exact rint_mul_left k q hq

@[simp] theorem rint_one (p : Nat) : rint p 1 = p := by
  simpa using rint_mul_left p 1 Nat.one_pos

@[simp] theorem rint_zero_left (q : Nat) : rint 0 q = 0 := by
  unfold rint; simp

/-- `rint` is monotone in the numerator -/
theorem rint_mono {p p' : Nat} (q : Nat) (hq : 0 < q) (h : p ≤ p') : rint p q ≤ rint p' q := by
  obtain ⟨a, r, hr, rfl⟩ := exists_divmod p q hq
  obtain ⟨a', r', hr', rfl⟩ := exists_divmod p' q hq
  rw [rint_add_mul _ _ _ hr, rint_add_mul _ _ _ hr']
  rcases Nat.lt_trichotomy a a' with hlt | rfl | hgt
  · split_ifs <;> omega
  · split_ifs <;> omega
  · exfalso
    have := Nat.mul_le_mul_right q (show a' + 1 ≤ a from hgt)
    rw [Nat.add_mul] at this; omega

/-- rounding to nearest never crosses an integer (from below) -/
theorem le_rint_of_le {p q k : Nat} (hq : 0 < q) (h : k * q ≤ p) : k ≤ rint p q := by
  have := rint_mono q hq h
  rwa [rint_mul_left k q hq] at this

/-- rounding to nearest never crosses an integer (from above) -/
theorem rint_le_of_le {p q k : Nat} (hq : 0 < q) (h : p ≤ k * q) : rint p q ≤ k := by
  have := rint_mono q hq h
  rwa [rint_mul_left k q hq] at this

/-- `rint` only depends on the rational `p/q` -/
theorem rint_mul_mul_right (p q c : Nat) (hq : 0 < q) (hc : 0 < c) :
    rint (p * c) (q * c) = rint p q := by
  have hb := rint_bounds p q hq
  have ht := rint_tie_even p q hq
  generalize rint p q = k at hb ht
  have e1 : k * (q * c) = (k * q) * c := by ring
  apply rint_eq_of _ _ _ (Nat.mul_pos hq hc)
  · rw [e1]; nlinarith [hb.1]
  · rw [e1]; nlinarith [hb.2]
  · rw [e1]
    intro h
    apply ht
    rcases h with h | h
    · left; apply Nat.eq_of_mul_eq_mul_right hc; nlinarith [h]
    · right; apply Nat.eq_of_mul_eq_mul_right hc; nlinarith [h]

theorem rint_mul_mul_left (p q c : Nat) (hq : 0 < q) (hc : 0 < c) :
    rint (c * p) (c * q) = rint p q := by
  rw [Nat.mul_comm c p, Nat.mul_comm c q]; exact rint_mul_mul_right p q c hq hc

/-- `rint p q` is a nearest integer to `p/q`: no integer `j` is strictly closer -/
theorem rint_nearest (p q j : Nat) (hq : 0 < q) :
    |((rint p q : Nat) : Int) * q - p| ≤ |(j : Int) * q - p| := by
  have hb := rint_bounds p q hq
  have h1 : j * q ≤ p → j ≤ rint p q := le_rint_of_le hq
  have h2 : p ≤ j * q → rint p q ≤ j := rint_le_of_le hq
  generalize rint p q = k at hb h1 h2
  have h3 : k + 1 ≤ j → k * q + q ≤ j * q := fun h => by
    have := Nat.mul_le_mul_right q h; rwa [Nat.add_mul, Nat.one_mul] at this
  have h4 : j + 1 ≤ k → j * q + q ≤ k * q := fun h => by
    have := Nat.mul_le_mul_right q h; rwa [Nat.add_mul, Nat.one_mul] at this
  have h5 : k = j → k * q = j * q := fun h => by rw [h]
  rw [← Int.natCast_mul, ← Int.natCast_mul]
  generalize k * q = A at *
  generalize j * q = B at *
  rcases abs_cases ((A : Int) - p) with ⟨e1, _⟩ | ⟨e1, _⟩ <;>
  rcases abs_cases ((B : Int) - p) with ⟨e2, _⟩ | ⟨e2, _⟩ <;> rw [e1, e2] <;> omega

/-! ## the exponent `Nat.log2 n - 52` -/

theorem log2_sub_le {n e : Nat} (h : n < 2 ^ 53 * 2 ^ e) : Nat.log2 n - 52 ≤ e := by
  rcases Nat.eq_zero_or_pos n with rfl | hn
  · simp
  · have : Nat.log2 n < 53 + e := (Nat.log2_lt (by omega)).2 (by rwa [Nat.pow_add])
    omega

theorem le_log2_sub {n e : Nat} (h : 2 ^ 52 * 2 ^ e ≤ n) : e ≤ Nat.log2 n - 52 := by
  have hn : n ≠ 0 := by have := Nat.two_pow_pos e; omega
  have : 52 + e ≤ Nat.log2 n := (Nat.le_log2 hn).2 (by rwa [Nat.pow_add])
  omega

/-- the binade `[2^52·2^e, 2^53·2^e)` determines `Nat.log2 n - 52` -/
theorem log2_sub_eq {n e : Nat} (h1 : 2 ^ 52 * 2 ^ e ≤ n) (h2 : n < 2 ^ 53 * 2 ^ e) :
    Nat.log2 n - 52 = e :=
  Nat.le_antisymm (log2_sub_le h2) (le_log2_sub h1)

theorem log2_sub_eq_zero {n : Nat} (h : n < 2 ^ 53) : Nat.log2 n - 52 = 0 := by
  have := @log2_sub_le n 0 (by simpa using h)
  omega

/-- for `n ≥ 2^52`, `n` lies in the binade of `e = Nat.log2 n - 52` -/
theorem log2_sub_spec {n : Nat} (h : 2 ^ 52 ≤ n) :
    2 ^ 52 * 2 ^ (Nat.log2 n - 52) ≤ n ∧ n < 2 ^ 53 * 2 ^ (Nat.log2 n - 52) := by
  have hn : n ≠ 0 := by omega
  have h52 : 52 ≤ Nat.log2 n := (Nat.le_log2 hn).2 h
  have e1 : 2 ^ 52 * 2 ^ (Nat.log2 n - 52) = 2 ^ (Nat.log2 n) := by
    rw [← Nat.pow_add]; congr 1; omega
  have e2 : 2 ^ 53 * 2 ^ (Nat.log2 n - 52) = 2 ^ (Nat.log2 n + 1) := by
    rw [← Nat.pow_add]; congr 1; omega
  rw [e1, e2]; exact ⟨Nat.log2_self_le hn, Nat.lt_log2_self⟩

/-! ## `Rep` -/

/-- `Rep` in divisibility form -/
theorem rep_iff_dvd (n : Nat) : Rep n ↔ n < 2 ^ 53 ∨ 2 ^ (Nat.log2 n - 52) ∣ n := by
  unfold Rep
  constructor
  · rintro (h | h)
    · exact Or.inl h
    · exact Or.inr ⟨_, by rw [Nat.mul_comm]; exact h.symm⟩
  · rintro (h | h)
    · exact Or.inl h
    · exact Or.inr (Nat.div_mul_cancel h)

/-- integers below `2^53` are representable -/
theorem rep_of_lt {n : Nat} (h : n < 2 ^ 53) : Rep n := Or.inl h

theorem rep_zero : Rep 0 := rep_of_lt (by decide)

/-- a representable `n ≥ 2^53` is a multiple of its ulp `2^(log2 n - 52)` -/
theorem Rep.dvd_ulp {n : Nat} (h : Rep n) (hn : 2 ^ 53 ≤ n) : 2 ^ (Nat.log2 n - 52) ∣ n := by
  rcases (rep_iff_dvd n).1 h with h | h
  · omega
  · exact h

/-- a representable number is a multiple of its ulp (no size hypothesis needed) -/
theorem Rep.dvd_ulp' {n : Nat} (h : Rep n) : 2 ^ (Nat.log2 n - 52) ∣ n := by
  rcases (rep_iff_dvd n).1 h with h | h
  · rw [log2_sub_eq_zero h]; exact Nat.one_dvd n
  · exact h

theorem rep_mul_pow_of_lt {m : Nat} (e : Nat) (h : m < 2 ^ 53) : Rep (m * 2 ^ e) := by
  rw [rep_iff_dvd]; right
  have h1 : m * 2 ^ e < 2 ^ 53 * 2 ^ e := Nat.mul_lt_mul_of_pos_right h (Nat.two_pow_pos e)
  exact Dvd.dvd.mul_left (Nat.pow_dvd_pow 2 (log2_sub_le h1)) m

/-- at most 53 significant bits times a power of two is representable -/
theorem rep_of_mul_pow {m : Nat} (e : Nat) (h : m ≤ 2 ^ 53) : Rep (m * 2 ^ e) := by
  rcases Nat.lt_or_ge m (2 ^ 53) with h' | h'
  · exact rep_mul_pow_of_lt e h'
  · have : m * 2 ^ e = 2 ^ 52 * 2 ^ (e + 1) := by
      have : m = 2 ^ 53 := by omega
      rw [this, Nat.pow_succ]; omega
    rw [this]; exact rep_mul_pow_of_lt _ (by decide)

/-- a representable number in or above the binade of exponent `e` is a multiple of `2^e` -/
theorem Rep.dvd_of_le {x e : Nat} (h : Rep x) (hx : 2 ^ 52 * 2 ^ e ≤ x) : 2 ^ e ∣ x :=
  Nat.dvd_trans (Nat.pow_dvd_pow 2 (le_log2_sub hx)) h.dvd_ulp'

/-- a representable `n ≥ 2^53` is a normalised 53-bit significand times a power of two -/
theorem rep_exists_of_ge {n : Nat} (h : Rep n) (h' : 2 ^ 53 ≤ n) :
    ∃ m e, n = m * 2 ^ e ∧ 2 ^ 52 ≤ m ∧ m < 2 ^ 53 := by
  have hs := log2_sub_spec (n := n) (by omega)
  obtain ⟨m, hm⟩ := h.dvd_ulp h'
  generalize Nat.log2 n - 52 = E at hs hm
  subst hm
  have hp := Nat.two_pow_pos E
  rw [Nat.mul_comm (2 ^ E) m] at hs ⊢
  exact ⟨m, E, rfl, Nat.le_of_mul_le_mul_right hs.1 hp, Nat.lt_of_mul_lt_mul_right hs.2⟩

/-- `Rep n` iff `n = m · 2^e` with `m < 2^53` -/
theorem rep_iff_exists (n : Nat) : Rep n ↔ ∃ m e, m < 2 ^ 53 ∧ n = m * 2 ^ e := by
  constructor
  · intro h
    rcases Nat.lt_or_ge n (2 ^ 53) with h' | h'
    · exact ⟨n, 0, h', by simp⟩
    · obtain ⟨m, e, rfl, -, hm⟩ := rep_exists_of_ge h h'
      exact ⟨m, e, hm, rfl⟩
  · rintro ⟨m, e, hm, rfl⟩
    exact rep_mul_pow_of_lt e hm

/-- `Rep n` iff `n < 2^53` or `n = m · 2^e` with a normalised 53-bit `m` -/
theorem rep_iff (n : Nat) :
    Rep n ↔ n < 2 ^ 53 ∨ ∃ m e, n = m * 2 ^ e ∧ 2 ^ 52 ≤ m ∧ m < 2 ^ 53 := by
  constructor
  · intro h
    rcases Nat.lt_or_ge n (2 ^ 53) with h' | h'
    · exact Or.inl h'
    · exact Or.inr (rep_exists_of_ge h h')
  · rintro (h | ⟨m, e, rfl, _, hm⟩)
    · exact rep_of_lt h
    · exact rep_mul_pow_of_lt e hm

/-- scaling by a power of two preserves representability -/
theorem rep_mul_pow2 {n : Nat} (k : Nat) (h : Rep n) : Rep (n * 2 ^ k) := by
  obtain ⟨m, e, hm, rfl⟩ := (rep_iff_exists n).1 h
  rw [Nat.mul_assoc, ← Nat.pow_add]
  exact rep_mul_pow_of_lt _ hm

theorem rep_two_pow (k : Nat) : Rep (2 ^ k) := by
  simpa using rep_mul_pow_of_lt (m := 1) k (by decide)

/-- a multiple of `2^k` that is at most `2^53 · 2^k` is representable -/
theorem rep_of_dvd_of_le {z k : Nat} (hd : 2 ^ k ∣ z) (hz : z ≤ 2 ^ 53 * 2 ^ k) : Rep z := by
  obtain ⟨m, rfl⟩ := hd
  rw [Nat.mul_comm]
  apply rep_of_mul_pow
  rw [Nat.mul_comm] at hz
  exact Nat.le_of_mul_le_mul_right hz (Nat.two_pow_pos k)

/-! ## `roundQ`: the exponent `Nat.log2 (p / q) - 52` and the uniform formula -/

/-- Uniform formula: `roundQ` is `rint` at the granularity `2^e`, `e = log2 (p / q) - 52`
(which is `0` when `p / q < 2^53`). -/
theorem roundQ_eq (p q : Nat) :
    roundQ p q = rint p (q * 2 ^ (Nat.log2 (p / q) - 52)) * 2 ^ (Nat.log2 (p / q) - 52) := by
  unfold roundQ
  simp only []
  split_ifs with h
  · rw [log2_sub_eq_zero h, Nat.pow_zero, Nat.mul_one, Nat.mul_one]
  · rfl

/-- binade of the floor quotient `p / q` expressed on `p` itself -/
theorem quot_binade_iff {p q e : Nat} (hq : 0 < q) :
    (2 ^ 52 * 2 ^ e ≤ p / q ∧ p / q < 2 ^ 53 * 2 ^ e) ↔
      (2 ^ 52 * (q * 2 ^ e) ≤ p ∧ p < 2 ^ 53 * (q * 2 ^ e)) := by
  rw [Nat.le_div_iff_mul_le hq, Nat.div_lt_iff_lt_mul hq]
  have e1 : 2 ^ 52 * 2 ^ e * q = 2 ^ 52 * (q * 2 ^ e) := by ring
  have e2 : 2 ^ 53 * 2 ^ e * q = 2 ^ 53 * (q * 2 ^ e) := by ring
  rw [e1, e2]

/-- the rounding exponent is `0` below `2^53` -/
theorem roundQ_exp_eq_zero {p q : Nat} (hq : 0 < q) (h : p < 2 ^ 53 * q) :
    Nat.log2 (p / q) - 52 = 0 :=
  log2_sub_eq_zero ((Nat.div_lt_iff_lt_mul hq).2 h)

/-- the binade `[2^52·2^e, 2^53·2^e)` of `p/q` determines the rounding exponent -/
theorem roundQ_exp_eq {p q e : Nat} (hq : 0 < q)
    (h1 : 2 ^ 52 * (q * 2 ^ e) ≤ p) (h2 : p < 2 ^ 53 * (q * 2 ^ e)) :
    Nat.log2 (p / q) - 52 = e := by
  have := (quot_binade_iff hq).2 ⟨h1, h2⟩
  exact log2_sub_eq this.1 this.2

/-- upper end of the binade: always `p < 2^53 · q · 2^e` -/
theorem roundQ_exp_lt (p q : Nat) (hq : 0 < q) :
    p < 2 ^ 53 * (q * 2 ^ (Nat.log2 (p / q) - 52)) := by
  rcases Nat.lt_or_ge (p / q) (2 ^ 52) with h | h
  · have h' : p / q < 2 ^ 53 := by omega
    rw [log2_sub_eq_zero h', Nat.pow_zero, Nat.mul_one]
    exact (Nat.div_lt_iff_lt_mul hq).1 h'
  · exact ((quot_binade_iff hq).1 (log2_sub_spec h)).2

/-- lower end of the binade, for `p/q ≥ 2^52` (the helper: `p / (q·2^e) ∈ [2^52, 2^53)`) -/
theorem roundQ_exp_le {p q : Nat} (hq : 0 < q) (h : 2 ^ 52 * q ≤ p) :
    2 ^ 52 * (q * 2 ^ (Nat.log2 (p / q) - 52)) ≤ p :=
  ((quot_binade_iff hq).1 (log2_sub_spec ((Nat.le_div_iff_mul_le hq).2 h))).1

/-- in the big case the floor quotient at granularity `2^e` is a normalised 53-bit integer -/
theorem roundQ_quot_range {p q : Nat} (hq : 0 < q) (h : 2 ^ 52 * q ≤ p) :
    2 ^ 52 ≤ p / (q * 2 ^ (Nat.log2 (p / q) - 52)) ∧
      p / (q * 2 ^ (Nat.log2 (p / q) - 52)) < 2 ^ 53 := by
  have hQ : 0 < q * 2 ^ (Nat.log2 (p / q) - 52) := Nat.mul_pos hq (Nat.two_pow_pos _)
  exact ⟨(Nat.le_div_iff_mul_le hQ).2 (roundQ_exp_le hq h),
    (Nat.div_lt_iff_lt_mul hQ).2 (roundQ_exp_lt p q hq)⟩

/-- the rounded significand lies in `[2^52, 2^53]` in the big case -/
theorem roundQ_rint_range {p q : Nat} (hq : 0 < q) (h : 2 ^ 52 * q ≤ p) :
    2 ^ 52 ≤ rint p (q * 2 ^ (Nat.log2 (p / q) - 52)) ∧
      rint p (q * 2 ^ (Nat.log2 (p / q) - 52)) ≤ 2 ^ 53 := by
  have hQ : 0 < q * 2 ^ (Nat.log2 (p / q) - 52) := Nat.mul_pos hq (Nat.two_pow_pos _)
  exact ⟨le_rint_of_le hQ (roundQ_exp_le hq h), rint_le_of_le hQ (Nat.le_of_lt (roundQ_exp_lt p q hq))⟩

/-- the rounded significand is always at most `2^53` -/
theorem roundQ_rint_le (p q : Nat) (hq : 0 < q) :
    rint p (q * 2 ^ (Nat.log2 (p / q) - 52)) ≤ 2 ^ 53 :=
  rint_le_of_le (Nat.mul_pos hq (Nat.two_pow_pos _)) (Nat.le_of_lt (roundQ_exp_lt p q hq))

/-- below `2^53` `roundQ` is plain `rint` -/
theorem roundQ_of_lt {p q : Nat} (hq : 0 < q) (h : p < 2 ^ 53 * q) : roundQ p q = rint p q := by
  rw [roundQ_eq, roundQ_exp_eq_zero hq h, Nat.pow_zero, Nat.mul_one, Nat.mul_one]

/-- in the binade of exponent `e`, `roundQ` is `rint` at granularity `2^e` -/
theorem roundQ_of_binade {p q e : Nat} (hq : 0 < q)
    (h1 : 2 ^ 52 * (q * 2 ^ e) ≤ p) (h2 : p < 2 ^ 53 * (q * 2 ^ e)) :
    roundQ p q = rint p (q * 2 ^ e) * 2 ^ e := by
  rw [roundQ_eq, roundQ_exp_eq hq h1 h2]

/-- `roundQ p q ≤ 2^53 · 2^e` -/
theorem roundQ_le_pow (p q : Nat) (hq : 0 < q) :
    roundQ p q ≤ 2 ^ 53 * 2 ^ (Nat.log2 (p / q) - 52) := by
  rw [roundQ_eq]; exact Nat.mul_le_mul_right _ (roundQ_rint_le p q hq)

/-- `2^52 · 2^e ≤ roundQ p q` when `p/q ≥ 2^52` -/
theorem pow_le_roundQ {p q : Nat} (hq : 0 < q) (h : 2 ^ 52 * q ≤ p) :
    2 ^ 52 * 2 ^ (Nat.log2 (p / q) - 52) ≤ roundQ p q := by
  rw [roundQ_eq]; exact Nat.mul_le_mul_right _ (roundQ_rint_range hq h).1

/-- the result of `roundQ` is representable -/
theorem roundQ_rep (p q : Nat) (hq : 0 < q) : Rep (roundQ p q) := by
  rw [roundQ_eq]; exact rep_of_mul_pow _ (roundQ_rint_le p q hq)

/-- the result of `rn53` is representable -/
theorem rn53_rep (n : Nat) : Rep (rn53 n) := roundQ_rep n 1 Nat.one_pos

/-- `roundQ` only depends on the rational `p/q` -/
theorem roundQ_mul_mul_right (p q c : Nat) (hq : 0 < q) (hc : 0 < c) :
    roundQ (p * c) (q * c) = roundQ p q := by
  rw [roundQ_eq, roundQ_eq p q, Nat.mul_div_mul_right _ _ hc]
  generalize Nat.log2 (p / q) - 52 = e
  have : q * c * 2 ^ e = q * 2 ^ e * c := by ring
  rw [this, rint_mul_mul_right _ _ _ (Nat.mul_pos hq (Nat.two_pow_pos e)) hc]

theorem roundQ_mul_mul_left (p q c : Nat) (hq : 0 < q) (hc : 0 < c) :
    roundQ (c * p) (c * q) = roundQ p q := by
  rw [Nat.mul_comm c p, Nat.mul_comm c q]; exact roundQ_mul_mul_right p q c hq hc

/-- rounding an integer quotient is `rn53` -/
theorem roundQ_mul_right_eq_rn53 (n q : Nat) (hq : 0 < q) : roundQ (n * q) q = rn53 n := by
  have := roundQ_mul_mul_right n 1 q Nat.one_pos hq
  rwa [Nat.one_mul] at this

@[simp] theorem roundQ_zero_left (q : Nat) : roundQ 0 q = 0 := by
  rw [roundQ_eq]; simp

@[simp] theorem rn53_zero : rn53 0 = 0 := roundQ_zero_left 1

/-! ## `rn53` formulas and identity on representable numbers -/

/-- uniform formula for `rn53` -/
theorem rn53_eq (n : Nat) :
    rn53 n = rint n (2 ^ (Nat.log2 n - 52)) * 2 ^ (Nat.log2 n - 52) := by
  unfold rn53; rw [roundQ_eq, Nat.div_one, Nat.one_mul]

/-- in the binade of exponent `e`, `rn53` is `rint` at granularity `2^e` -/
theorem rn53_of_binade {n e : Nat} (h1 : 2 ^ 52 * 2 ^ e ≤ n) (h2 : n < 2 ^ 53 * 2 ^ e) :
    rn53 n = rint n (2 ^ e) * 2 ^ e := by
  rw [rn53_eq, log2_sub_eq h1 h2]

/-- explicit in-binade form: significand `m`, discarded bits `r` -/
theorem rn53_binade {m s r : Nat} (h1 : 2 ^ 52 ≤ m) (h2 : m < 2 ^ 53) (hr : r < 2 ^ s) :
    rn53 (m * 2 ^ s + r) = rint (m * 2 ^ s + r) (2 ^ s) * 2 ^ s := by
  apply rn53_of_binade
  · have := Nat.mul_le_mul_right (2 ^ s) h1; omega
  · have := Nat.mul_le_mul_right (2 ^ s) (show m + 1 ≤ 2 ^ 53 from h2)
    rw [Nat.add_mul] at this; omega

/-- `rn53` is the identity below `2^53` -/
theorem rn53_of_lt {n : Nat} (h : n < 2 ^ 53) : rn53 n = n := by
  unfold rn53; rw [roundQ_of_lt Nat.one_pos (by omega), rint_one]

/-- `rn53` is the identity on representable numbers -/
theorem rn53_of_rep {n : Nat} (h : Rep n) : rn53 n = n := by
  rcases Nat.lt_or_ge n (2 ^ 53) with h' | h'
  · exact rn53_of_lt h'
  · obtain ⟨m, e, rfl, h1, h2⟩ := rep_exists_of_ge h h'
    rw [rn53_of_binade (e := e) (Nat.mul_le_mul_right _ h1)
      (Nat.mul_lt_mul_of_pos_right h2 (Nat.two_pow_pos e)), rint_mul_left _ _ (Nat.two_pow_pos e)]

/-- `rn53 n = n` exactly for representable `n` -/
theorem rn53_eq_self_iff (n : Nat) : rn53 n = n ↔ Rep n :=
  ⟨fun h => h ▸ rn53_rep n, rn53_of_rep⟩

/-- `rn53` is idempotent -/
theorem rn53_idem (n : Nat) : rn53 (rn53 n) = rn53 n := rn53_of_rep (rn53_rep n)

/-- `roundQ` is exact on representable integers -/
theorem roundQ_mul_of_rep {n q : Nat} (hq : 0 < q) (h : Rep n) : roundQ (n * q) q = n := by
  rw [roundQ_mul_right_eq_rn53 n q hq]; exact rn53_of_rep h

/-! ## error bounds -/

/-- half-ulp error bound for `roundQ`, `e = log2 (p / q) - 52` (which is `0` if `p / q < 2^53`):
`2·|roundQ p q · q − p| ≤ q · 2^e`, as two `Nat` inequalities -/
theorem roundQ_bounds (p q : Nat) (hq : 0 < q) :
    2 * (roundQ p q * q) ≤ 2 * p + q * 2 ^ (Nat.log2 (p / q) - 52) ∧
      2 * p ≤ 2 * (roundQ p q * q) + q * 2 ^ (Nat.log2 (p / q) - 52) := by
  rw [roundQ_eq]
  generalize Nat.log2 (p / q) - 52 = e
  have hb := rint_bounds p (q * 2 ^ e) (Nat.mul_pos hq (Nat.two_pow_pos e))
  have : rint p (q * 2 ^ e) * 2 ^ e * q = rint p (q * 2 ^ e) * (q * 2 ^ e) := by ring
  rw [this]; exact hb

/-- half-ulp error bound for `roundQ` in `ℤ` -/
theorem roundQ_abs_err (p q : Nat) (hq : 0 < q) :
    2 * |((roundQ p q : Nat) : Int) * q - p| ≤ ((q * 2 ^ (Nat.log2 (p / q) - 52) : Nat) : Int) := by
  have hb := roundQ_bounds p q hq
  rw [← Int.natCast_mul]
  generalize roundQ p q * q = A at hb
  generalize q * 2 ^ (Nat.log2 (p / q) - 52) = B at hb
  rcases abs_cases ((A : Int) - p) with ⟨e1, _⟩ | ⟨e1, _⟩ <;> rw [e1] <;> omega

/-- half-ulp error bound for `rn53`, as two `Nat` inequalities -/
theorem rn53_bounds (n : Nat) :
    2 * rn53 n ≤ 2 * n + 2 ^ (Nat.log2 n - 52) ∧ 2 * n ≤ 2 * rn53 n + 2 ^ (Nat.log2 n - 52) := by
  have := roundQ_bounds n 1 Nat.one_pos
  rwa [Nat.div_one, Nat.mul_one, Nat.one_mul] at this

/-- half-ulp error bound for `rn53` in `ℤ` -/
theorem rn53_abs_err (n : Nat) :
    2 * |((rn53 n : Nat) : Int) - n| ≤ ((2 ^ (Nat.log2 n - 52) : Nat) : Int) := by
  have hb := rn53_bounds n
  generalize rn53 n = A at hb
  generalize 2 ^ (Nat.log2 n - 52) = B at hb
  rcases abs_cases ((A : Int) - n) with ⟨e1, _⟩ | ⟨e1, _⟩ <;> rw [e1] <;> omega

/-- relative error of `rn53` is at most `2^-53`, as two `Nat` inequalities -/
theorem rn53_rel_bounds (n : Nat) :
    2 ^ 53 * rn53 n ≤ 2 ^ 53 * n + n ∧ 2 ^ 53 * n ≤ 2 ^ 53 * rn53 n + n := by
  rcases Nat.lt_or_ge n (2 ^ 53) with h | h
  · rw [rn53_of_lt h]; omega
  · have hb := rn53_bounds n
    have hs := (log2_sub_spec (n := n) (by omega)).1
    generalize 2 ^ (Nat.log2 n - 52) = B at hb hs
    omega

/-- relative error of `rn53` is at most `2^-53` -/
theorem rn53_rel_err (n : Nat) : 2 ^ 53 * |((rn53 n : Nat) : Int) - n| ≤ (n : Int) := by
  have hb := rn53_rel_bounds n
  generalize rn53 n = A at hb
  rcases abs_cases ((A : Int) - n) with ⟨e1, _⟩ | ⟨e1, _⟩ <;> rw [e1] <;> omega

/-- crude bound `rn53 n ≤ 2 n` -/
theorem rn53_le_two_mul (n : Nat) : rn53 n ≤ 2 * n := by
  have := rn53_rel_bounds n; omega

/-- crude bound `n ≤ 2 · rn53 n` -/
theorem le_two_mul_rn53 (n : Nat) : n ≤ 2 * rn53 n := by
  have := rn53_rel_bounds n; omega

/-! ## `roundQ` versus arbitrary representable numbers -/

/-- a nonzero rounding exponent means the big case -/
theorem roundQ_exp_pos {p q : Nat} (hq : 0 < q) (h : Nat.log2 (p / q) - 52 ≠ 0) : 2 ^ 53 * q ≤ p := by
  rcases Nat.lt_or_ge p (2 ^ 53 * q) with h' | h'
  · exact absurd (roundQ_exp_eq_zero hq h') h
  · exact h'

/-- Position of a representable `x` relative to the rounding grid of `p/q` (`e = log2 (p / q) - 52`):
either `x` is on the grid `2^e ℕ`, or `x` lies below the binade of `p/q`. -/
theorem rep_grid_cases (p q : Nat) {x : Nat} (hq : 0 < q) (hx : Rep x) :
    2 ^ (Nat.log2 (p / q) - 52) ∣ x ∨
      (x < 2 ^ 52 * 2 ^ (Nat.log2 (p / q) - 52) ∧ 2 ^ 52 * (q * 2 ^ (Nat.log2 (p / q) - 52)) ≤ p) := by
  by_cases hd : 2 ^ (Nat.log2 (p / q) - 52) ∣ x
  · exact Or.inl hd
  · right
    have h0 : Nat.log2 (p / q) - 52 ≠ 0 := by
      intro h0; rw [h0] at hd; exact hd (Nat.one_dvd x)
    have hp := roundQ_exp_pos hq h0
    refine ⟨?_, roundQ_exp_le hq (by omega)⟩
    rcases Nat.lt_or_ge x (2 ^ 52 * 2 ^ (Nat.log2 (p / q) - 52)) with h | h
    · exact h
    · exact absurd (hx.dvd_of_le h) hd

/-- rounding never crosses a representable number (from below) -/
theorem le_roundQ_of_le {p q x : Nat} (hq : 0 < q) (hx : Rep x) (h : x * q ≤ p) :
    x ≤ roundQ p q := by
  rcases rep_grid_cases p q hq hx with ⟨j, rfl⟩ | ⟨h1, h2⟩
  · rw [roundQ_eq, Nat.mul_comm _ j]
    apply Nat.mul_le_mul_right
    apply le_rint_of_le (Nat.mul_pos hq (Nat.two_pow_pos _))
    have : j * (q * 2 ^ (Nat.log2 (p / q) - 52)) = 2 ^ (Nat.log2 (p / q) - 52) * j * q := by ring
    rw [this]; exact h
  · have hq52 : 2 ^ 52 * q ≤ p := by
      refine Nat.le_trans ?_ h2
      exact Nat.mul_le_mul_left _ (Nat.le_mul_of_pos_right q (Nat.two_pow_pos _))
    exact Nat.le_trans (Nat.le_of_lt h1) (pow_le_roundQ hq hq52)

/-- rounding never crosses a representable number (from above) -/
theorem roundQ_le_of_le {p q x : Nat} (hq : 0 < q) (hx : Rep x) (h : p ≤ x * q) :
    roundQ p q ≤ x := by
  rcases rep_grid_cases p q hq hx with ⟨j, rfl⟩ | ⟨h1, h2⟩
  · rw [roundQ_eq, Nat.mul_comm _ j]
    apply Nat.mul_le_mul_right
    apply rint_le_of_le (Nat.mul_pos hq (Nat.two_pow_pos _))
    have : j * (q * 2 ^ (Nat.log2 (p / q) - 52)) = 2 ^ (Nat.log2 (p / q) - 52) * j * q := by ring
    rw [this]; exact h
  · exfalso
    have h3 := Nat.mul_lt_mul_of_pos_right h1 hq
    have : 2 ^ 52 * 2 ^ (Nat.log2 (p / q) - 52) * q = 2 ^ 52 * (q * 2 ^ (Nat.log2 (p / q) - 52)) := by
      ring
    omega

/-- `roundQ p q` is a nearest representable number to `p/q` -/
theorem roundQ_nearest (p q : Nat) {x : Nat} (hq : 0 < q) (hx : Rep x) :
    |((roundQ p q : Nat) : Int) * q - p| ≤ |(x : Int) * q - p| := by
  have hQ : 0 < q * 2 ^ (Nat.log2 (p / q) - 52) := Nat.mul_pos hq (Nat.two_pow_pos _)
  have e0 : ((roundQ p q : Nat) : Int) * q
      = ((rint p (q * 2 ^ (Nat.log2 (p / q) - 52)) : Nat) : Int)
          * ((q * 2 ^ (Nat.log2 (p / q) - 52) : Nat) : Int) := by
    rw [roundQ_eq]; push_cast; ring
  rw [e0]
  rcases rep_grid_cases p q hq hx with ⟨j, rfl⟩ | ⟨h1, h2⟩
  · have := rint_nearest p _ j hQ
    have e1 : ((2 ^ (Nat.log2 (p / q) - 52) * j : Nat) : Int) * q
        = (j : Int) * ((q * 2 ^ (Nat.log2 (p / q) - 52) : Nat) : Int) := by push_cast; ring
    rw [e1]; exact this
  · have := rint_nearest p _ (2 ^ 52) hQ
    refine le_trans this ?_
    have h3 := Nat.mul_lt_mul_of_pos_right h1 hq
    have e2 : 2 ^ 52 * 2 ^ (Nat.log2 (p / q) - 52) * q
        = 2 ^ 52 * (q * 2 ^ (Nat.log2 (p / q) - 52)) := by ring
    rw [e2] at h3
    rw [← Int.natCast_mul x q]
    generalize x * q = C at h3
    generalize q * 2 ^ (Nat.log2 (p / q) - 52) = Q at h2 h3 ⊢
    rw [abs_of_nonpos (by push_cast; omega), abs_of_nonpos (by omega)]
    push_cast; omega

/-- the rounding exponent is monotone in the numerator -/
theorem roundQ_exp_mono {p p' : Nat} (q : Nat) (hq : 0 < q) (h : p ≤ p') :
    Nat.log2 (p / q) - 52 ≤ Nat.log2 (p' / q) - 52 := by
  apply log2_sub_le
  have h1 : p / q ≤ p' / q := Nat.div_le_div_right h
  have h2 : p' / q < 2 ^ 53 * 2 ^ (Nat.log2 (p' / q) - 52) := by
    rw [Nat.div_lt_iff_lt_mul hq]
    have e : 2 ^ 53 * 2 ^ (Nat.log2 (p' / q) - 52) * q
        = 2 ^ 53 * (q * 2 ^ (Nat.log2 (p' / q) - 52)) := by ring
    rw [e]; exact roundQ_exp_lt p' q hq
  omega

/-- `roundQ` is monotone in the numerator -/
theorem roundQ_mono {p p' : Nat} (q : Nat) (hq : 0 < q) (h : p ≤ p') : roundQ p q ≤ roundQ p' q := by
  have hE := roundQ_exp_mono q hq h
  rcases Nat.lt_or_ge (Nat.log2 (p / q) - 52) (Nat.log2 (p' / q) - 52) with hlt | hge
  · have hp' := roundQ_exp_pos hq (p := p') (by omega)
    calc roundQ p q ≤ 2 ^ 53 * 2 ^ (Nat.log2 (p / q) - 52) := roundQ_le_pow p q hq
      _ ≤ 2 ^ 52 * 2 ^ (Nat.log2 (p' / q) - 52) := by
          have := Nat.pow_le_pow_right (show 0 < 2 by decide) (show _ + 1 ≤ _ from hlt)
          rw [Nat.pow_succ] at this; omega
      _ ≤ roundQ p' q := pow_le_roundQ hq (by omega)
  · have e : Nat.log2 (p / q) - 52 = Nat.log2 (p' / q) - 52 := Nat.le_antisymm hE hge
    rw [roundQ_eq, roundQ_eq p' q, e]
    exact Nat.mul_le_mul_right _ (rint_mono _ (Nat.mul_pos hq (Nat.two_pow_pos _)) h)

/-- `roundQ` is monotone on rationals: `p/q ≤ p'/q'` implies `roundQ p q ≤ roundQ p' q'` -/
theorem roundQ_mono_rat {p q p' q' : Nat} (hq : 0 < q) (hq' : 0 < q') (h : p * q' ≤ p' * q) :
    roundQ p q ≤ roundQ p' q' := by
  rw [← roundQ_mul_mul_right p q q' hq hq', ← roundQ_mul_mul_right p' q' q hq' hq,
    Nat.mul_comm q' q]
  exact roundQ_mono _ (Nat.mul_pos hq hq') h

/-- `roundQ` is well defined on rationals -/
theorem roundQ_congr_rat {p q p' q' : Nat} (hq : 0 < q) (hq' : 0 < q') (h : p * q' = p' * q) :
    roundQ p q = roundQ p' q' :=
  Nat.le_antisymm (roundQ_mono_rat hq hq' (Nat.le_of_eq h)) (roundQ_mono_rat hq' hq (Nat.le_of_eq h.symm))

/-- `rn53` is monotone -/
theorem rn53_mono {n n' : Nat} (h : n ≤ n') : rn53 n ≤ rn53 n' := roundQ_mono 1 Nat.one_pos h

/-- `rn53` never crosses a representable number (from below) -/
theorem le_rn53_of_le {n x : Nat} (hx : Rep x) (h : x ≤ n) : x ≤ rn53 n :=
  le_roundQ_of_le Nat.one_pos hx (by rwa [Nat.mul_one])

/-- `rn53` never crosses a representable number (from above) -/
theorem rn53_le_of_le {n x : Nat} (hx : Rep x) (h : n ≤ x) : rn53 n ≤ x :=
  roundQ_le_of_le Nat.one_pos hx (by rwa [Nat.mul_one])

/-- `rn53 n` is a nearest representable number to `n` -/
theorem rn53_nearest (n : Nat) {x : Nat} (hx : Rep x) :
    |((rn53 n : Nat) : Int) - n| ≤ |(x : Int) - n| := by
  have := roundQ_nearest n 1 Nat.one_pos hx
  simpa [rn53] using this

theorem pow_le_rn53 {n k : Nat} (h : 2 ^ k ≤ n) : 2 ^ k ≤ rn53 n := le_rn53_of_le (rep_two_pow k) h

theorem rn53_le_pow {n k : Nat} (h : n ≤ 2 ^ k) : rn53 n ≤ 2 ^ k := rn53_le_of_le (rep_two_pow k) h

/-- `rn53` of a positive number is positive -/
theorem rn53_pos {n : Nat} (h : 0 < n) : 0 < rn53 n :=
  le_rn53_of_le (x := 1) (rep_of_lt (by decide)) h

theorem rn53_eq_zero_iff (n : Nat) : rn53 n = 0 ↔ n = 0 := by
  constructor
  · intro h
    rcases Nat.eq_zero_or_pos n with h0 | h0
    · exact h0
    · have := rn53_pos h0; omega
  · rintro rfl; exact rn53_zero

/-- `roundQ p q` is positive as soon as `p/q ≥ 1` -/
theorem roundQ_pos {p q : Nat} (hq : 0 < q) (h : q ≤ p) : 0 < roundQ p q :=
  le_roundQ_of_le (x := 1) hq (rep_of_lt (by decide)) (by rwa [Nat.one_mul])

/-- crude bound `roundQ p q · q ≤ 2 p` -/
theorem roundQ_mul_le_two_mul (p q : Nat) (hq : 0 < q) : roundQ p q * q ≤ 2 * p := by
  rcases Nat.lt_or_ge p (2 ^ 53 * q) with h | h
  · rw [roundQ_of_lt hq h]
    have hb := rint_bounds_upper p q hq
    rcases Nat.eq_zero_or_pos (rint p q) with h0 | h0
    · rw [h0]; omega
    · have := Nat.mul_le_mul_right q h0
      omega
  · have hb := (roundQ_bounds p q hq).1
    have hs := roundQ_exp_le hq (p := p) (by omega)
    omega

/-! ## scaling by powers of two and divisibility -/

/-- scaling the numerator by `2^k` commutes with rounding once `p/q ≥ 2^52` -/
theorem roundQ_mul_pow2 {p q : Nat} (k : Nat) (hq : 0 < q) (h : 2 ^ 52 * q ≤ p) :
    roundQ (p * 2 ^ k) q = roundQ p q * 2 ^ k := by
  have h1 := roundQ_exp_le hq h
  have h2 := roundQ_exp_lt p q hq
  rw [roundQ_eq p q]
  generalize Nat.log2 (p / q) - 52 = e at h1 h2
  have hk := Nat.two_pow_pos k
  have eq : q * 2 ^ (e + k) = q * 2 ^ e * 2 ^ k := by rw [Nat.pow_add]; ring
  rw [roundQ_of_binade (e := e + k) hq
      (by rw [eq, ← Nat.mul_assoc]; exact Nat.mul_le_mul_right _ h1)
      (by rw [eq, ← Nat.mul_assoc]; exact Nat.mul_lt_mul_of_pos_right h2 hk),
    eq, rint_mul_mul_right _ _ _ (Nat.mul_pos hq (Nat.two_pow_pos e)) hk, Nat.pow_add, Nat.mul_assoc]

/-- dividing the denominator by `2^k` commutes with rounding once `p/(q·2^k) ≥ 2^52` -/
theorem roundQ_div_pow2 {p q : Nat} (k : Nat) (hq : 0 < q) (h : 2 ^ 52 * (q * 2 ^ k) ≤ p) :
    roundQ p q = roundQ p (q * 2 ^ k) * 2 ^ k := by
  rw [← roundQ_mul_pow2 k (Nat.mul_pos hq (Nat.two_pow_pos k)) h,
    roundQ_mul_mul_right p q _ hq (Nat.two_pow_pos k)]

/-- `rn53` commutes with multiplication by a power of two (no underflow in this direction) -/
theorem rn53_mul_pow2 (n k : Nat) : rn53 (n * 2 ^ k) = rn53 n * 2 ^ k := by
  rcases Nat.lt_or_ge n (2 ^ 52) with h | h
  · have hr : Rep n := rep_of_lt (by omega)
    rw [rn53_of_rep hr, rn53_of_rep (rep_mul_pow2 k hr)]
  · exact roundQ_mul_pow2 k Nat.one_pos (by omega)

/-- `rn53` preserves divisibility by powers of two -/
theorem rn53_dvd {n k : Nat} (h : 2 ^ k ∣ n) : 2 ^ k ∣ rn53 n := by
  obtain ⟨m, rfl⟩ := h
  rw [Nat.mul_comm, rn53_mul_pow2]
  exact Nat.dvd_mul_left _ _

/-- `roundQ` of an integer multiple of `2^k` is a multiple of `2^k` -/
theorem roundQ_dvd {p q k : Nat} (hq : 0 < q) (h : 2 ^ k * q ∣ p) : 2 ^ k ∣ roundQ p q := by
  obtain ⟨m, rfl⟩ := h
  have : 2 ^ k * q * m = (2 ^ k * m) * q := by ring
  rw [this, roundQ_mul_right_eq_rn53 _ _ hq]
  exact rn53_dvd (Nat.dvd_mul_right _ _)

/-- the rounding error of `rn53` is divisible by any power of two dividing the argument -/
theorem rn53_sub_dvd {n k : Nat} (h : 2 ^ k ∣ n) : (2 : Int) ^ k ∣ (rn53 n : Int) - n := by
  have := Int.dvd_sub (Int.natCast_dvd_natCast.2 (rn53_dvd h)) (Int.natCast_dvd_natCast.2 h)
  rwa [Int.natCast_pow] at this

/-! ## tools for error-free transformations (Fast2Sum, 2Sum) on scaled integers -/

/-- every `n` is below `2^53` ulps of itself -/
theorem lt_ulp_mul (n : Nat) : n < 2 ^ 53 * 2 ^ (Nat.log2 n - 52) := by
  have := roundQ_exp_lt n 1 Nat.one_pos
  rwa [Nat.div_one, Nat.one_mul] at this

/-- the ulp of a smaller number divides every larger representable number -/
theorem Rep.ulp_dvd_of_le {a b : Nat} (ha : Rep a) (h : b ≤ a) : 2 ^ (Nat.log2 b - 52) ∣ a := by
  rcases Nat.lt_or_ge b (2 ^ 53) with hb | hb
  · rw [log2_sub_eq_zero hb]; exact Nat.one_dvd a
  · exact ha.dvd_of_le (Nat.le_trans (log2_sub_spec (n := b) (by omega)).1 h)

/-- integer version of `rep_of_dvd_of_le`: if `2^k ∣ z` and `|z| ≤ 2^53 · 2^k` then `|z|` is representable -/
theorem rep_natAbs_of_dvd_of_le {z : Int} {k : Nat} (hd : (2 : Int) ^ k ∣ z)
    (hz : |z| ≤ 2 ^ 53 * 2 ^ k) : Rep z.natAbs := by
  apply rep_of_dvd_of_le (k := k)
  · have : ((2 ^ k : Nat) : Int) ∣ z := by rwa [Int.natCast_pow]
    exact Int.natCast_dvd.1 this
  · have h1 : ((z.natAbs : Nat) : Int) = |z| := Int.natCast_natAbs z
    have h2 : ((z.natAbs : Nat) : Int) ≤ ((2 ^ 53 * 2 ^ k : Nat) : Int) := by
      rw [h1]; push_cast; exact hz
    exact Int.ofNat_le.1 h2

/-- Sterbenz: the difference of two representable numbers within a factor two is representable -/
theorem rep_sub_of_le_two_mul {a b : Nat} (ha : Rep a) (hb : Rep b) (h1 : b ≤ a) (h2 : a ≤ 2 * b) :
    Rep (a - b) := by
  apply rep_of_dvd_of_le (k := Nat.log2 b - 52)
  · exact Nat.dvd_sub (ha.ulp_dvd_of_le h1) hb.dvd_ulp'
  · have := lt_ulp_mul b; omega

/-- the sum of two representable numbers, when it fits in the grid of the smaller one, is representable -/
theorem rep_add_of_le {a b : Nat} (ha : Rep a) (hb : Rep b) (h1 : b ≤ a)
    (h2 : a + b ≤ 2 ^ 53 * 2 ^ (Nat.log2 b - 52)) : Rep (a + b) :=
  rep_of_dvd_of_le (Nat.dvd_add (ha.ulp_dvd_of_le h1) hb.dvd_ulp') h2

/-- The rounding error of a (same-sign) floating-point addition is representable. -/
theorem rep_rn53_add_err {a b : Nat} (ha : Rep a) (hb : Rep b) :
    Rep (((rn53 (a + b) : Nat) : Int) - ((a + b : Nat) : Int)).natAbs := by
  wlog h : b ≤ a generalizing a b
  · have := this hb ha (by omega)
    rwa [Nat.add_comm] at this
  apply rep_natAbs_of_dvd_of_le (k := Nat.log2 b - 52)
  · exact rn53_sub_dvd (Nat.dvd_add (ha.ulp_dvd_of_le h) hb.dvd_ulp')
  · have hn := rn53_nearest (a + b) ha
    have hl := lt_ulp_mul b
    have e : |(a : Int) - ((a + b : Nat) : Int)| = b := by
      push_cast; rw [abs_of_nonpos (by omega)]; omega
    rw [e] at hn
    refine le_trans hn ?_
    have : ((b : Nat) : Int) ≤ ((2 ^ 53 * 2 ^ (Nat.log2 b - 52) : Nat) : Int) :=
      Int.ofNat_le.2 (Nat.le_of_lt hl)
    push_cast at this; exact this

/-- The rounding error of a floating-point subtraction `a - b` (`b ≤ a`) is representable. -/
theorem rep_rn53_sub_err {a b : Nat} (ha : Rep a) (hb : Rep b) (h : b ≤ a) :
    Rep (((rn53 (a - b) : Nat) : Int) - ((a - b : Nat) : Int)).natAbs := by
  apply rep_natAbs_of_dvd_of_le (k := Nat.log2 b - 52)
  · exact rn53_sub_dvd (Nat.dvd_sub (ha.ulp_dvd_of_le h) hb.dvd_ulp')
  · have hn := rn53_nearest (a - b) ha
    have hl := lt_ulp_mul b
    have e : |(a : Int) - ((a - b : Nat) : Int)| = b := by
      rw [abs_of_nonneg (by omega)]; omega
    rw [e] at hn
    refine le_trans hn ?_
    have : ((b : Nat) : Int) ≤ ((2 ^ 53 * 2 ^ (Nat.log2 b - 52) : Nat) : Int) :=
      Int.ofNat_le.2 (Nat.le_of_lt hl)
    push_cast at this; exact this

/-- Fast2Sum, first step (same signs): `s = rn53 (a + b)` lies in `[a, 2a]` when `b ≤ a` -/
theorem rn53_add_range {a b : Nat} (ha : Rep a) (h : b ≤ a) :
    a ≤ rn53 (a + b) ∧ rn53 (a + b) ≤ 2 * a := by
  refine ⟨le_rn53_of_le ha (by omega), ?_⟩
  have h2 : Rep (2 * a) := by
    have := rep_mul_pow2 1 ha; rwa [Nat.pow_one, Nat.mul_comm] at this
  exact rn53_le_of_le h2 (by omega)

/-- Fast2Sum, second step (same signs): `s - a` is computed exactly -/
theorem rep_rn53_add_sub_left {a b : Nat} (ha : Rep a) (h : b ≤ a) : Rep (rn53 (a + b) - a) := by
  have hr := rn53_add_range ha h
  exact rep_sub_of_le_two_mul (rn53_rep _) ha hr.1 hr.2

/-- Fast2Sum, second step (opposite signs): `a - rn53 (a - b)` is computed exactly -/
theorem rep_sub_rn53_sub {a b : Nat} (ha : Rep a) (hb : Rep b) (h : b ≤ a) :
    Rep (a - rn53 (a - b)) := by
  rcases Nat.lt_or_ge (2 * b) a with h2 | h2
  · have hs1 : rn53 (a - b) ≤ a := rn53_le_of_le ha (by omega)
    have hs2 : a ≤ 2 * rn53 (a - b) := by
      have h3 := rn53_mul_pow2 (a - b) 1
      have h4 : a ≤ rn53 ((a - b) * 2 ^ 1) := le_rn53_of_le ha (by omega)
      omega
    exact rep_sub_of_le_two_mul ha (rn53_rep _) hs1 hs2
  · have hd : Rep (a - b) := rep_sub_of_le_two_mul ha hb h h2
    rw [rn53_of_rep hd]
    have : a - (a - b) = b := by omega
    rw [this]; exact hb

/-- uniqueness: a representable `x` strictly within half an ulp of `n` is `rn53 n` -/
theorem rn53_eq_of_abs_lt {n x : Nat} (hx : Rep x)
    (h : 2 * |(x : Int) - n| < ((2 ^ (Nat.log2 n - 52) : Nat) : Int)) : rn53 n = x := by
  have hg := rep_grid_cases n 1 Nat.one_pos hx
  rw [Nat.div_one, Nat.one_mul] at hg
  rw [rn53_eq]
  have hU := Nat.two_pow_pos (Nat.log2 n - 52)
  have key : 2 * x < 2 * n + 2 ^ (Nat.log2 n - 52) ∧ 2 * n < 2 * x + 2 ^ (Nat.log2 n - 52) := by
    generalize 2 ^ (Nat.log2 n - 52) = U at h
    rcases abs_cases ((x : Int) - n) with ⟨e1, _⟩ | ⟨e1, _⟩ <;> rw [e1] at h <;> omega
  rcases hg with ⟨j, rfl⟩ | ⟨h1, h2⟩
  · rw [Nat.mul_comm _ j] at key ⊢
    congr 1
    generalize 2 ^ (Nat.log2 n - 52) = U at *
    apply rint_eq_of _ _ _ hU
    · omega
    · omega
    · intro ht; exfalso; omega
  · exfalso
    obtain ⟨E', hE'⟩ : ∃ E', Nat.log2 n - 52 = E' + 1 := by
      rcases Nat.eq_zero_or_pos (Nat.log2 n - 52) with h0 | h0
      · rw [h0] at h1 h2 key; omega
      · exact ⟨Nat.log2 n - 52 - 1, by omega⟩
    rw [hE', Nat.pow_succ] at h1 h2 key
    have hU' := Nat.two_pow_pos E'
    obtain ⟨j, rfl⟩ := hx.dvd_of_le (e := E') (by omega)
    have hj : j < 2 ^ 53 := by
      apply Nat.lt_of_mul_lt_mul_left (a := 2 ^ E'); omega
    have := Nat.mul_le_mul_left (2 ^ E') (show j + 1 ≤ 2 ^ 53 from hj)
    rw [Nat.mul_add] at this
    omega

/-- converse of `rep_mul_pow2`: dividing out a power of two preserves representability -/
theorem Rep.of_mul_pow2 {y k : Nat} (h : Rep (y * 2 ^ k)) : Rep y := by
  rcases Nat.lt_or_ge y (2 ^ 53) with hy | hy
  · exact rep_of_lt hy
  · have hs := log2_sub_spec (n := y) (by omega)
    generalize Nat.log2 y - 52 = e at hs
    have hk := Nat.two_pow_pos k
    have h1 : 2 ^ 52 * 2 ^ (e + k) ≤ y * 2 ^ k := by
      rw [Nat.pow_add, ← Nat.mul_assoc]; exact Nat.mul_le_mul_right _ hs.1
    have h2 := h.dvd_of_le h1
    rw [Nat.pow_add] at h2
    exact rep_of_dvd_of_le (Nat.dvd_of_mul_dvd_mul_right hk h2) (Nat.le_of_lt hs.2)

theorem rep_mul_pow2_iff {y k : Nat} : Rep (y * 2 ^ k) ↔ Rep y :=
  ⟨Rep.of_mul_pow2, rep_mul_pow2 k⟩

/-- two distinct representable numbers are at least one ulp (of the smaller) apart -/
theorem Rep.ulp_le_sub_of_lt {x y : Nat} (hx : Rep x) (hy : Rep y) (h : x < y) :
    2 ^ (Nat.log2 x - 52) ≤ y - x :=
  Nat.le_of_dvd (by omega) (Nat.dvd_sub (hy.ulp_dvd_of_le (Nat.le_of_lt h)) hx.dvd_ulp')

/-- relative error of `roundQ` is at most `2^-53` once `p/q ≥ 2^52` (two `Nat` inequalities) -/
theorem roundQ_rel_bounds {p q : Nat} (hq : 0 < q) (h : 2 ^ 52 * q ≤ p) :
    2 ^ 53 * (roundQ p q * q) ≤ 2 ^ 53 * p + p ∧ 2 ^ 53 * p ≤ 2 ^ 53 * (roundQ p q * q) + p := by
  have hb := roundQ_bounds p q hq
  have hs := roundQ_exp_le hq h
  generalize q * 2 ^ (Nat.log2 (p / q) - 52) = B at hb hs
  omega

/-! ## overflow threshold -/

/-- Bridge between the core `Nat` power instance (used by the Mathlib-free `TFV.Prelude`) and the
`Monoid.Pow ℕ` instance that `2 ^ k` elaborates to once Mathlib is imported.  The two are definitionally
equal, but for *literal* exponents above 256 (e.g. `2^1074`, `2^2045`) the unifier tries to evaluate the
power and runs out of recursion depth; `rw [pow_core_eq _ 2045]` converts explicitly instead. -/
theorem pow_core_eq (a k : Nat) :
    @HPow.hPow Nat Nat Nat (@instHPow Nat Nat (@instPowNat Nat instNatPowNat)) a k = a ^ k := rfl

/-- `maxFin` with the Mathlib power instance -/
theorem maxFin_eq : maxFin = (2 ^ 53 - 1) * 2 ^ 2045 := by
  unfold maxFin; rw [pow_core_eq 2 2045]

/-- the largest finite double is representable -/
theorem rep_maxFin : Rep maxFin := by
  rw [maxFin_eq]
  exact rep_mul_pow_of_lt (m := 2 ^ 53 - 1) 2045 (by decide)

/-- rounding a value in the finite range stays in the finite range -/
theorem roundQ_le_maxFin {p q : Nat} (hq : 0 < q) (h : p ≤ maxFin * q) : roundQ p q ≤ maxFin :=
  roundQ_le_of_le hq rep_maxFin h

theorem rn53_le_maxFin {n : Nat} (h : n ≤ maxFin) : rn53 n ≤ maxFin := rn53_le_of_le rep_maxFin h

end F64
