/-
Spec.Defs — the vocabulary in which the properties are stated.

Units: every finite double is an integer multiple of 2^-1074; `F64.toInt x` is that (signed) integer.
`TwoFloat.V t` is the exact value hi + lo in the same units (an integer — no rationals are needed).
-/
import TFV.Gen

namespace F64

/-- the value of the double-rounding-free sum `a + b` compared with IEEE `==` -/
def addEq (a b : F64) : Bool := F64.eq (F64.add a b) a

theorem WF_nan : WF nan := trivial
theorem WF_inf (s : Bool) : WF (inf s) := trivial

end F64

namespace TwoFloat

/-- exact value hi + lo in units of 2^-1074 (meaningful when both words are finite) -/
def V (t : TwoFloat) : Int := t.hi.toInt + t.lo.toInt

/-- both words are bit patterns of doubles -/
def WF (t : TwoFloat) : Prop := t.hi.WF ∧ t.lo.WF

/-- Definition 1.4 of Joldes–Muller–Popescu as the properties state it:
both words finite and hi = RN(hi + lo) -/
def Valid (t : TwoFloat) : Prop :=
  t.hi.is_finite = true ∧ t.lo.is_finite = true ∧ F64.addEq t.hi t.lo = true

instance (t : TwoFloat) : Decidable t.Valid := by unfold Valid; infer_instance

/-- the invariant of property C01: valid, or an explicit non-finite marker in the high word -/
def Inv (t : TwoFloat) : Prop := t.Valid ∨ t.hi.is_finite = false

end TwoFloat
