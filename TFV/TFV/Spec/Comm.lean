/-
Spec.Comm — algebraic identities of the binary64 model that hold bit for bit.  Used by the bridge
(`Delta.lean`) so that harmless argument swaps in the source do not break the tie to the Model snapshot.
-/
import TFV.Prelude.Classes

namespace F64

theorem add_comm (x y : F64) : add x y = add y x := by
  cases x <;> cases y <;> simp [add, Int.add_comm, Bool.and_comm]
  rename_i s t
  by_cases h : s = t <;> simp [h, eq_comm]

theorem mul_comm (x y : F64) : mul x y = mul y x := by
  cases x <;> cases y <;> simp [mul, Nat.mul_comm, bne_comm]

theorem fma_comm (x y z : F64) : fma x y z = fma y x z := by
  cases x <;> cases y <;> cases z <;> simp [fma, Nat.mul_comm, bne_comm]

private def ord3 (p q : Int) : ROrdering := if p < q then .Less else if p = q then .Equal else .Greater
private theorem ord3_gt (p q : Int) : (ord3 p q == .Greater) = (ord3 q p == .Less) := by
  unfold ord3
  rcases Int.lt_trichotomy p q with h | h | h
  · have h2 : ¬ q < p := by omega
    have h3 : ¬ q = p := by omega
    simp only [h, h2, h3, if_true, if_false]; rfl
  · subst h; simp only [Int.lt_irrefl, if_true, if_false]; try rfl
  · have h2 : ¬ p < q := by omega
    have h3 : ¬ p = q := by omega
    simp only [h, h2, h3, if_true, if_false]; rfl
private theorem ord3_eq (p q : Int) : (ord3 p q == .Equal) = (ord3 q p == .Equal) := by
  unfold ord3
  rcases Int.lt_trichotomy p q with h | h | h
  · have h2 : ¬ q < p := by omega
    have h3 : ¬ q = p := by omega
    simp only [h, h2, h3, if_true, if_false]; rfl
  · subst h; simp only [Int.lt_irrefl, if_true, if_false]; try rfl
  · have h2 : ¬ p < q := by omega
    have h3 : ¬ p = q := by omega
    simp only [h, h2, h3, if_true, if_false]; rfl
private theorem pc_fin (a c : Bool) (b d : Nat) : partial_cmp (fin a b) (fin c d) = some (ord3 (fin a b).toInt (fin c d).toInt) := rfl
theorem gt_flip (x y : F64) : gt x y = lt y x := by
  cases x <;> cases y <;> try (simp [gt, lt, partial_cmp]; done)
  · rename_i s t; cases s <;> cases t <;> simp [gt, lt, partial_cmp] <;> rfl
  · rename_i s t _; cases s <;> simp [gt, lt, partial_cmp] <;> rfl
  · rename_i _ _ t; cases t <;> simp [gt, lt, partial_cmp] <;> rfl
  · simp only [gt, lt, pc_fin]; simpa using ord3_gt _ _
theorem lt_flip (x y : F64) : lt x y = gt y x := (gt_flip y x).symm
theorem eq_flip (x y : F64) : eq x y = eq y x := by
  cases x <;> cases y <;> try (simp [eq, partial_cmp]; done)
  · rename_i s t; cases s <;> cases t <;> simp [eq, partial_cmp] <;> rfl
  · rename_i s t _; cases s <;> simp [eq, partial_cmp] <;> rfl
  · rename_i _ _ t; cases t <;> simp [eq, partial_cmp] <;> rfl
  · simp only [eq, pc_fin]; simpa using ord3_eq _ _
theorem ge_flip (x y : F64) : ge x y = le y x := by
  have h1 := gt_flip x y; have h2 := eq_flip x y
  simp only [gt, lt, eq] at h1 h2; simp only [ge, le, h1, h2]
theorem le_flip (x y : F64) : le x y = ge y x := (ge_flip y x).symm

private def flipO : ROrdering → ROrdering | .Less => .Greater | .Equal => .Equal | .Greater => .Less
private theorem ord3_flip (p q : Int) : ord3 p q = flipO (ord3 q p) := by
  unfold ord3
  rcases Int.lt_trichotomy p q with h | h | h
  · have h2 : ¬ q < p := by omega
    have h3 : ¬ q = p := by omega
    simp only [h, h2, h3, if_true, if_false]; rfl
  · subst h; simp only [Int.lt_irrefl, if_true, if_false]; rfl
  · have h2 : ¬ p < q := by omega
    have h3 : ¬ p = q := by omega
    simp only [h, h2, h3, if_true, if_false]; rfl
theorem pcmp_flip (x y : F64) : partial_cmp x y = (partial_cmp y x).map flipO := by
  cases x <;> cases y <;> try (simp [partial_cmp]; done)
  · rename_i s t; cases s <;> cases t <;> simp [partial_cmp] <;> rfl
  · rename_i s t _; cases s <;> simp [partial_cmp] <;> rfl
  · rename_i _ _ t; cases t <;> simp [partial_cmp] <;> rfl
  · simp only [pc_fin, Option.map]; rw [ord3_flip]

end F64

/-- `a > b` is `b < a`, `a >= b` is `b <= a` (Rust's provided PartialOrd methods on f64) -/
theorem rgt_f64_swap (x y : F64) : (x >. y) = (y <. x) := by
  unfold RPartialOrd.gt RPartialOrd.lt; show (match F64.partial_cmp x y with | some .Greater => true | _ => false) = (match F64.partial_cmp y x with | some .Less => true | _ => false)
  rw [F64.pcmp_flip x y]; cases F64.partial_cmp y x <;> try rfl
  rename_i o; cases o <;> rfl
theorem rge_f64_swap (x y : F64) : (x >=. y) = (y <=. x) := by
  unfold RPartialOrd.ge RPartialOrd.le; show (match F64.partial_cmp x y with | some .Greater => true | some .Equal => true | _ => false) = (match F64.partial_cmp y x with | some .Less => true | some .Equal => true | _ => false)
  rw [F64.pcmp_flip x y]; cases F64.partial_cmp y x <;> try rfl
  rename_i o; cases o <;> rfl
theorem req_f64_swap (x y : F64) : (x ==. y) = (y ==. x) := F64.eq_flip x y

@[simp] theorem radd_f64_comm (x y : F64) : (x +. y) = F64.add x y := rfl
