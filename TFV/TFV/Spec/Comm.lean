/-
Spec.Comm — algebraic identities of the binary64 model that hold bit for bit.  Used by the bridge
(`Delta.lean`) so that harmless argument swaps in the source do not break the tie to the Model snapshot.
-/
import TFV.Prelude.Classes

namespace F64

theorem add_comm (x y : F64) : add x y = add y x := by
  cases x <;> cases y <;> simp [add, Int.add_comm, Bool.and_comm]
  rename_i s t
  by_cases h : s = t <;> simp [h, eq_comm]

theorem mul_comm (x y : F64) : mul x y = mul y x := by
  cases x <;> cases y <;> simp [mul, Nat.mul_comm, bne_comm]

theorem fma_comm (x y z : F64) : fma x y z = fma y x z := by
  cases x <;> cases y <;> cases z <;> simp [fma, Nat.mul_comm, bne_comm]

end F64

@[simp] theorem radd_f64_comm (x y : F64) : (x +. y) = F64.add x y := rfl
