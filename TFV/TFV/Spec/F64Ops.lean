/-
Spec.F64Ops — layer L1: value-level specifications of the `F64` primitives (`add`, `sub`, `mul`, `div`,
`fma`, `neg`, `abs`) on finite operands, in the scaled-integer setting (`F64.toInt`).

* well-formedness of every result (`add_WF`, …, unconditional for the rounded operations);
* `roundSigned_spec`: a finite result has `toInt = rqI num den` (signed `roundQ`);
* `add_spec`, `sub_spec`: `toInt (x ± y) = rnI (toInt x ± toInt y)` when the rounded sum is in range;
  `add_exact`, `sub_exact`: the operation is exact when the integer result is representable;
* `mul_spec`, `fma_spec` (quotients by `unit = 2^1074`), `mul_exact`, `fma_exact`;
* the integer-level vocabulary `RepI`, with the facts about `rnI` needed by the error-free transformations.
-/
import TFV.Spec.Defs
import TFV.Spec.Rounding
import TFV.Lemmas.Cmp

namespace F64

/-! ## basic facts -/

theorem unit_eq : unit = 2 ^ 1074 := by unfold unit; rw [pow_core_eq 2 1074]

theorem unit_pos : 0 < unit := by unfold unit; exact Nat.two_pow_pos 1074

theorem toInt_fin (s : Bool) (n : Nat) : (fin s n).toInt = if s then -(n : Int) else (n : Int) := by
  cases s <;> rfl

@[simp] theorem natAbs_toInt_fin (s : Bool) (n : Nat) : (fin s n).toInt.natAbs = n := by
  cases s <;> simp [toInt]

theorem abs_toInt_fin (s : Bool) (n : Nat) : |(fin s n).toInt| = (n : Int) := by
  cases s <;> simp [toInt]

theorem toInt_fin_neg_iff (s : Bool) (n : Nat) : (fin s n).toInt < 0 ↔ (s = true ∧ n ≠ 0) := by
  cases s
  · simp [toInt]
  · simp [toInt]; omega

theorem WF_fin_iff (s : Bool) (n : Nat) : WF (fin s n) ↔ (Rep n ∧ n ≤ maxFin) := Iff.rfl

theorem WF_zero (s : Bool) : WF (fin s 0) := ⟨rep_zero, Nat.zero_le _⟩

/-- a well-formed value has magnitude at most `maxFin` -/
theorem WF.abs_toInt_le {x : F64} (h : WF x) : |x.toInt| ≤ (maxFin : Int) := by
  cases x with
  | nan => simp [toInt]
  | inf s => simp [toInt]
  | fin s n => rw [abs_toInt_fin]; exact Int.ofNat_le.2 h.2

theorem WF.natAbs_toInt_le {x : F64} (h : WF x) : x.toInt.natAbs ≤ maxFin := by
  cases x with
  | nan => simp [toInt]
  | inf s => simp [toInt]
  | fin s n => rw [natAbs_toInt_fin]; exact h.2

/-! ## integer-level representability -/

/-- a (signed, scaled) integer whose magnitude is a representable double magnitude -/
def RepI (z : Int) : Prop := Rep z.natAbs

instance (z : Int) : Decidable (RepI z) := by unfold RepI; infer_instance

theorem WF.repI {x : F64} (h : WF x) : RepI x.toInt := by
  cases x with
  | nan => exact rep_zero
  | inf s => exact rep_zero
  | fin s n => unfold RepI; rw [natAbs_toInt_fin]; exact h.1

theorem repI_zero : RepI 0 := rep_zero

theorem repI_neg {z : Int} : RepI (-z) ↔ RepI z := by unfold RepI; rw [Int.natAbs_neg]

theorem RepI.neg {z : Int} (h : RepI z) : RepI (-z) := repI_neg.2 h

theorem repI_natCast {n : Nat} : RepI (n : Int) ↔ Rep n := by unfold RepI; rw [Int.natAbs_natCast]

theorem repI_sub_comm {a b : Int} : RepI (a - b) ↔ RepI (b - a) := by
  rw [← repI_neg, Int.neg_sub]

/-- `|rnI v|` is `rn53 |v|` -/
theorem natAbs_rnI (v : Int) : (rnI v).natAbs = rn53 v.natAbs := by
  unfold rnI; split_ifs <;> simp

theorem abs_rnI (v : Int) : |rnI v| = ((rn53 v.natAbs : Nat) : Int) := by
  rw [← natAbs_rnI, Int.natCast_natAbs]

theorem repI_rnI (v : Int) : RepI (rnI v) := by
  unfold RepI; rw [natAbs_rnI]; exact rn53_rep _

theorem rnI_of_repI {v : Int} (h : RepI v) : rnI v = v := by
  unfold rnI; rw [rn53_of_rep h]; split_ifs <;> omega

theorem rnI_natCast (n : Nat) : rnI (n : Int) = ((rn53 n : Nat) : Int) := by
  rw [rnI_of_nonneg (Int.natCast_nonneg n), Int.natAbs_natCast]

theorem rnI_neg_natCast (n : Nat) : rnI (-(n : Int)) = -((rn53 n : Nat) : Int) := by
  rw [rnI_neg, rnI_natCast]

/-- `rnI v` is a nearest representable integer to `v` -/
theorem rnI_nearest (v : Int) {x : Int} (hx : RepI x) : |rnI v - v| ≤ |x - v| := by
  have hn := rn53_nearest v.natAbs hx
  rcases lt_or_ge v 0 with hv | hv
  · rw [rnI_of_neg hv]
    have e1 : ((v.natAbs : Nat) : Int) = -v := by omega
    rw [e1] at hn
    have e2 : -((rn53 v.natAbs : Nat) : Int) - v = -(((rn53 v.natAbs : Nat) : Int) - -v) := by ring
    rw [e2, abs_neg]
    refine le_trans hn ?_
    rcases abs_cases ((x.natAbs : Int) - -v) with ⟨e3, _⟩ | ⟨e3, _⟩ <;>
    rcases abs_cases (x - v) with ⟨e4, _⟩ | ⟨e4, _⟩ <;> rw [e3, e4] <;> omega
  · rw [rnI_of_nonneg hv]
    have e1 : ((v.natAbs : Nat) : Int) = v := by omega
    rw [e1] at hn
    refine le_trans hn ?_
    rcases abs_cases ((x.natAbs : Int) - v) with ⟨e3, _⟩ | ⟨e3, _⟩ <;>
    rcases abs_cases (x - v) with ⟨e4, _⟩ | ⟨e4, _⟩ <;> rw [e3, e4] <;> omega

/-- rounding never crosses a representable magnitude (from above) -/
theorem abs_rnI_le {v x : Int} (hx : RepI x) (h : |v| ≤ |x|) : |rnI v| ≤ |x| := by
  rw [abs_rnI, ← Int.natCast_natAbs x]
  rw [← Int.natCast_natAbs v, ← Int.natCast_natAbs x] at h
  exact Int.ofNat_le.2 (rn53_le_of_le hx (Int.ofNat_le.1 h))

/-- rounding never crosses a representable magnitude (from below) -/
theorem le_abs_rnI {v x : Int} (hx : RepI x) (h : |x| ≤ |v|) : |x| ≤ |rnI v| := by
  rw [abs_rnI, ← Int.natCast_natAbs x]
  rw [← Int.natCast_natAbs v, ← Int.natCast_natAbs x] at h
  exact Int.ofNat_le.2 (le_rn53_of_le hx (Int.ofNat_le.1 h))

theorem natAbs_le_of_abs_le {v : Int} {m : Nat} (h : |v| ≤ (m : Int)) : v.natAbs ≤ m := by
  rw [← Int.natCast_natAbs v] at h; exact Int.ofNat_le.1 h

theorem abs_le_of_natAbs_le {v : Int} {m : Nat} (h : v.natAbs ≤ m) : |v| ≤ (m : Int) := by
  rw [← Int.natCast_natAbs v]; exact Int.ofNat_le.2 h

theorem rn53_natAbs_le_maxFin {v : Int} (h : |v| ≤ (maxFin : Int)) : rn53 v.natAbs ≤ maxFin :=
  rn53_le_maxFin (natAbs_le_of_abs_le h)

/-- `rnI` preserves divisibility by powers of two -/
theorem rnI_dvd {v : Int} {k : Nat} (h : (2 : Int) ^ k ∣ v) : (2 : Int) ^ k ∣ rnI v := by
  have h1 : 2 ^ k ∣ v.natAbs := by
    have : ((2 ^ k : Nat) : Int) ∣ v := by rwa [Int.natCast_pow]
    exact Int.natCast_dvd.1 this
  have h2 := rn53_dvd h1
  rw [← natAbs_rnI] at h2
  have := Int.natCast_dvd.2 h2
  rwa [Int.natCast_pow] at this

/-- the rounding error in terms of magnitudes -/
theorem abs_rnI_sub (v : Int) :
    |rnI v - v| = |((rn53 v.natAbs : Nat) : Int) - ((v.natAbs : Nat) : Int)| := by
  rcases lt_or_ge v 0 with hv | hv
  · rw [rnI_of_neg hv]
    have : ((v.natAbs : Nat) : Int) = -v := by omega
    rw [this, ← abs_neg]; congr 1; ring
  · rw [rnI_of_nonneg hv]
    have : ((v.natAbs : Nat) : Int) = v := by omega
    rw [this]

/-- half-ulp error bound for `rnI` -/
theorem two_mul_abs_rnI_sub_le (v : Int) :
    2 * |rnI v - v| ≤ ((2 ^ (Nat.log2 v.natAbs - 52) : Nat) : Int) := by
  rw [abs_rnI_sub]; exact rn53_abs_err _

theorem rnI_mono {v w : Int} (h : v ≤ w) : rnI v ≤ rnI w := roundFacts.rnI_mono h

theorem rnI_eq_zero_iff {v : Int} : rnI v = 0 ↔ v = 0 := roundFacts.rnI_eq_zero_iff

/-- the sign of `rnI v` is the sign of `v` -/
theorem rnI_nonneg_iff {v : Int} : 0 ≤ rnI v ↔ 0 ≤ v := by
  constructor
  · intro h; by_contra hc
    have := roundFacts.rnI_neg' (by omega : v < 0); omega
  · exact rnI_nonneg

theorem rnI_nonpos_iff {v : Int} : rnI v ≤ 0 ↔ v ≤ 0 := by
  constructor
  · intro h; by_contra hc
    have := roundFacts.rnI_pos (by omega : 0 < v); omega
  · exact rnI_nonpos

/-! ## signed `roundQ`, `pack`, `roundSigned` -/

/-- signed `roundQ`: round `num / den` to nearest-even, keeping the sign of `num` -/
def rqI (num : Int) (den : Nat) : Int :=
  if num < 0 then -((roundQ num.natAbs den : Nat) : Int) else ((roundQ num.natAbs den : Nat) : Int)

theorem rnI_eq_rqI (v : Int) : rnI v = rqI v 1 := rfl

@[simp] theorem rqI_zero (den : Nat) : rqI 0 den = 0 := by simp [rqI]

theorem natAbs_rqI (num : Int) (den : Nat) : (rqI num den).natAbs = roundQ num.natAbs den := by
  unfold rqI; split_ifs <;> simp

theorem rqI_neg (num : Int) (den : Nat) : rqI (-num) den = - rqI num den := by
  unfold rqI
  rcases Int.lt_trichotomy num 0 with h | h | h
  · rw [if_neg (by omega), if_pos h, Int.natAbs_neg]; omega
  · subst h; simp
  · rw [if_pos (by omega), if_neg (by omega), Int.natAbs_neg]

/-- exact quotients by the denominator are rounded like integers -/
theorem rqI_mul_right (v : Int) {den : Nat} (hden : 0 < den) : rqI (v * den) den = rnI v := by
  have hd : (0 : Int) < den := Int.natCast_pos.2 hden
  have e : (v * (den : Int)).natAbs = v.natAbs * den := by rw [Int.natAbs_mul, Int.natAbs_natCast]
  unfold rqI rnI
  rw [e, roundQ_mul_right_eq_rn53 _ _ hden]
  by_cases hv : v < 0
  · rw [if_pos (Int.mul_neg_of_neg_of_pos hv hd), if_pos hv]
  · rw [if_neg (by have := Int.mul_nonneg (by omega : 0 ≤ v) (Int.le_of_lt hd); omega), if_neg hv]

theorem pack_fin {s : Bool} {m : Nat} (h : m ≤ maxFin) : pack s m = fin s m := by
  unfold pack; rw [if_neg (Nat.not_lt.2 h)]

theorem pack_inf {s : Bool} {m : Nat} (h : maxFin < m) : pack s m = inf s := by
  unfold pack; rw [if_pos h]

/- NB: elaborating an application of a lemma whose type is `WF (pack s m)` whnf-normalises that type,
which unfolds `pack` and tries to *evaluate* `m > maxFin` (→ recursion depth).  Hence `pack` is made
irreducible for the rest of this file. -/
attribute [local irreducible] pack

theorem WF_of_eq_pack {x : F64} {s : Bool} {m : Nat} (hm : Rep m) (hx : x = pack s m) : WF x := by
  cases Nat.lt_or_ge maxFin m with
  | inl h => rw [hx, pack_inf h]; exact WF_inf s
  | inr h => rw [hx, pack_fin h]; exact ⟨hm, h⟩

/-- every rounded result is well-formed -/
theorem roundSigned_WF (num : Int) {den : Nat} (zs : Bool) (hden : 0 < den) :
    WF (roundSigned num den zs) := by
  unfold roundSigned
  by_cases h0 : num = 0
  · rw [if_pos h0]; exact WF_zero zs
  · rw [if_neg h0]; exact WF_of_eq_pack (roundQ_rep _ _ hden) rfl

/-- a rounded result in range is finite and its value is the signed `roundQ` -/
theorem roundSigned_spec (num : Int) {den : Nat} (zs : Bool) (h : roundQ num.natAbs den ≤ maxFin) :
    (roundSigned num den zs).is_finite = true ∧ (roundSigned num den zs).toInt = rqI num den := by
  unfold roundSigned
  by_cases h0 : num = 0
  · subst h0; simp
  · rw [if_neg h0, pack_fin h]
    refine ⟨rfl, ?_⟩
    unfold rqI
    by_cases hn : num < 0
    · simp [hn, toInt]
    · simp [hn, toInt]

/-- a rounded result out of range is an infinity -/
theorem roundSigned_overflow (num : Int) {den : Nat} (zs : Bool) (h : maxFin < roundQ num.natAbs den) :
    roundSigned num den zs = inf (decide (num < 0)) := by
  unfold roundSigned
  have h0 : num ≠ 0 := by
    rintro rfl; simp at h
  rw [if_neg h0, pack_inf h]

/-! ## well-formedness is preserved by every primitive -/

theorem neg_WF {x : F64} (h : WF x) : WF (neg x) := by
  cases x with
  | nan => trivial
  | inf s => trivial
  | fin s n => exact h

theorem abs_WF {x : F64} (h : WF x) : WF (abs x) := by
  cases x with
  | nan => trivial
  | inf s => trivial
  | fin s n => exact h

/-- the result of an addition is always well-formed -/
theorem add_WF (x y : F64) : WF (add x y) := by
  cases x with
  | nan => trivial
  | inf s =>
    cases y with
    | nan => trivial
    | inf t => simp only [add]; split_ifs <;> trivial
    | fin t b => trivial
  | fin s a =>
    cases y with
    | nan => trivial
    | inf t => trivial
    | fin t b => exact roundSigned_WF _ _ Nat.one_pos

theorem sub_WF (x y : F64) : WF (sub x y) := add_WF x (neg y)

theorem mul_WF (x y : F64) : WF (mul x y) := by
  cases x with
  | nan => trivial
  | inf s =>
    cases y with
    | nan => trivial
    | inf t => trivial
    | fin t b => simp only [mul]; split_ifs <;> trivial
  | fin s a =>
    cases y with
    | nan => trivial
    | inf t => simp only [mul]; split_ifs <;> trivial
    | fin t b =>
      show WF (if a * b = 0 then fin (s != t) 0 else pack (s != t) (roundQ (a * b) unit))
      by_cases h0 : a * b = 0
      · rw [if_pos h0]; exact WF_zero _
      · rw [if_neg h0]; exact WF_of_eq_pack (roundQ_rep _ _ unit_pos) rfl

theorem div_WF (x y : F64) : WF (div x y) := by
  cases x with
  | nan => trivial
  | inf s =>
    cases y with
    | nan => trivial
    | inf t => trivial
    | fin t b => trivial
  | fin s a =>
    cases y with
    | nan => trivial
    | inf t => exact WF_zero _
    | fin t b =>
      simp only [div]
      by_cases h1 : b = 0
      · rw [if_pos h1]; by_cases h2 : a = 0
        · rw [if_pos h2]; trivial
        · rw [if_neg h2]; trivial
      · rw [if_neg h1]; by_cases h2 : a = 0
        · rw [if_pos h2]; exact WF_zero _
        · rw [if_neg h2]; exact WF_of_eq_pack (roundQ_rep _ _ (Nat.pos_of_ne_zero h1)) rfl

theorem fma_WF (x y z : F64) : WF (fma x y z) := by
  cases x with
  | nan => trivial
  | inf s =>
    cases y with
    | nan => trivial
    | inf t =>
      cases z with
      | nan => trivial
      | inf u => simp only [fma]; split_ifs <;> trivial
      | fin u c => trivial
    | fin t b =>
      cases z with
      | nan => trivial
      | inf u => simp only [fma]; split_ifs <;> trivial
      | fin u c => simp only [fma]; split_ifs <;> trivial
  | fin s a =>
    cases y with
    | nan => trivial
    | inf t =>
      cases z with
      | nan => trivial
      | inf u => simp only [fma]; split_ifs <;> trivial
      | fin u c => simp only [fma]; split_ifs <;> trivial
    | fin t b =>
      cases z with
      | nan => trivial
      | inf u => trivial
      | fin u c => exact roundSigned_WF _ _ (Nat.two_pow_pos 1074)

/-! ## addition and subtraction of finite operands -/

theorem add_fin_fin (s t : Bool) (a b : Nat) :
    add (fin s a) (fin t b) = roundSigned ((fin s a).toInt + (fin t b).toInt) 1 (s && t) := rfl

theorem sub_eq_add_neg (x y : F64) : sub x y = add x (neg y) := rfl

theorem add_eq_roundSigned {x y : F64} (hx : x.is_finite = true) (hy : y.is_finite = true) :
    ∃ zs, add x y = roundSigned (x.toInt + y.toInt) 1 zs := by
  obtain ⟨s, a, rfl⟩ := is_finite_iff.mp hx
  obtain ⟨t, b, rfl⟩ := is_finite_iff.mp hy
  exact ⟨_, rfl⟩

/-- `add_fin`: a sum whose rounded magnitude is in range is finite with value `RN(x + y)` -/
theorem add_spec {x y : F64} (hx : x.is_finite = true) (hy : y.is_finite = true)
    (h : rn53 (x.toInt + y.toInt).natAbs ≤ maxFin) :
    (add x y).is_finite = true ∧ (add x y).toInt = rnI (x.toInt + y.toInt) := by
  obtain ⟨zs, e⟩ := add_eq_roundSigned hx hy
  rw [e, rnI_eq_rqI]
  exact roundSigned_spec _ _ h

/-- a sum whose rounded magnitude is out of range is an infinity -/
theorem add_overflow {x y : F64} (hx : x.is_finite = true) (hy : y.is_finite = true)
    (h : maxFin < rn53 (x.toInt + y.toInt).natAbs) :
    add x y = inf (decide (x.toInt + y.toInt < 0)) := by
  obtain ⟨zs, e⟩ := add_eq_roundSigned hx hy
  rw [e]; exact roundSigned_overflow _ _ h

theorem sub_spec {x y : F64} (hx : x.is_finite = true) (hy : y.is_finite = true)
    (h : rn53 (x.toInt - y.toInt).natAbs ≤ maxFin) :
    (sub x y).is_finite = true ∧ (sub x y).toInt = rnI (x.toInt - y.toInt) := by
  have := add_spec (x := x) (y := neg y) hx (by rw [is_finite_neg]; exact hy)
    (by rw [toInt_neg, ← Int.sub_eq_add_neg]; exact h)
  rw [toInt_neg, ← Int.sub_eq_add_neg] at this
  exact this

/-- an addition whose exact result is representable and in range is exact -/
theorem add_exact {x y : F64} (hx : x.is_finite = true) (hy : y.is_finite = true)
    (hr : RepI (x.toInt + y.toInt)) (hm : |x.toInt + y.toInt| ≤ (maxFin : Int)) :
    (add x y).is_finite = true ∧ (add x y).toInt = x.toInt + y.toInt := by
  have := add_spec hx hy (rn53_natAbs_le_maxFin hm)
  rwa [rnI_of_repI hr] at this

theorem sub_exact {x y : F64} (hx : x.is_finite = true) (hy : y.is_finite = true)
    (hr : RepI (x.toInt - y.toInt)) (hm : |x.toInt - y.toInt| ≤ (maxFin : Int)) :
    (sub x y).is_finite = true ∧ (sub x y).toInt = x.toInt - y.toInt := by
  have := sub_spec hx hy (rn53_natAbs_le_maxFin hm)
  rwa [rnI_of_repI hr] at this

/-- a representable integer of magnitude at most `maxFin` is in range after (trivial) rounding -/
theorem RepI.abs_le_maxFin_of {z : Int} (hm : |z| ≤ (maxFin : Int)) : rn53 z.natAbs ≤ maxFin :=
  rn53_natAbs_le_maxFin hm

/-! ## multiplication and fused multiply-add of finite operands -/

theorem mul_eq {x y : F64} (hx : x.is_finite = true) (hy : y.is_finite = true) :
    ∃ zs, mul x y = roundSigned (x.toInt * y.toInt) unit zs := by
  obtain ⟨s, a, rfl⟩ := is_finite_iff.mp hx
  obtain ⟨t, b, rfl⟩ := is_finite_iff.mp hy
  refine ⟨s != t, ?_⟩
  have hab : ((fin s a).toInt * (fin t b).toInt).natAbs = a * b := by
    rw [Int.natAbs_mul, natAbs_toInt_fin, natAbs_toInt_fin]
  have hz : (fin s a).toInt * (fin t b).toInt = 0 ↔ a * b = 0 := by
    rw [← Int.natAbs_eq_zero, hab]
  show (if a * b = 0 then fin (s != t) 0 else pack (s != t) (roundQ (a * b) unit)) = _
  unfold roundSigned
  by_cases h0 : a * b = 0
  · rw [if_pos h0, if_pos (hz.2 h0)]
  · rw [if_neg h0, if_neg (fun h => h0 (hz.1 h)), hab]
    congr 1
    have ha : a ≠ 0 := fun h => h0 (by rw [h, Nat.zero_mul])
    have hb : b ≠ 0 := fun h => h0 (by rw [h, Nat.mul_zero])
    have hpos : (0 : Int) < (a : Int) * (b : Int) :=
      Int.mul_pos (by omega) (by omega)
    rw [toInt_fin, toInt_fin]
    cases s <;> cases t <;> simp only [Bool.false_eq_true, if_false, if_true, neg_mul, mul_neg,
      bne_self_eq_false, Bool.bne_true, Bool.bne_false, Bool.not_false] <;>
      generalize (a : Int) * (b : Int) = p at hpos <;> simp <;> omega

/-- `mul_fin`: a product whose rounded magnitude is in range is finite with value
`RN(x·y / 2^1074)` -/
theorem mul_spec {x y : F64} (hx : x.is_finite = true) (hy : y.is_finite = true)
    (h : roundQ (x.toInt * y.toInt).natAbs unit ≤ maxFin) :
    (mul x y).is_finite = true ∧ (mul x y).toInt = rqI (x.toInt * y.toInt) unit := by
  obtain ⟨zs, e⟩ := mul_eq hx hy
  rw [e]; exact roundSigned_spec _ _ h

/-- exact products: `2^1074 ∣ x·y` with a representable quotient in range -/
theorem mul_exact {x y : F64} (hx : x.is_finite = true) (hy : y.is_finite = true) {q : Int}
    (hq : x.toInt * y.toInt = q * (unit : Int)) (hr : RepI q) (hm : |q| ≤ (maxFin : Int)) :
    (mul x y).is_finite = true ∧ (mul x y).toInt = q := by
  have e : rqI (x.toInt * y.toInt) unit = q := by
    rw [hq, rqI_mul_right _ unit_pos, rnI_of_repI hr]
  have := mul_spec hx hy (by rw [← natAbs_rqI, e]; exact natAbs_le_of_abs_le hm)
  rwa [e] at this

theorem fma_eq {x y z : F64} (hx : x.is_finite = true) (hy : y.is_finite = true)
    (hz : z.is_finite = true) :
    ∃ zs, fma x y z = roundSigned (x.toInt * y.toInt + z.toInt * (unit : Int)) unit zs := by
  obtain ⟨s, a, rfl⟩ := is_finite_iff.mp hx
  obtain ⟨t, b, rfl⟩ := is_finite_iff.mp hy
  obtain ⟨u, c, rfl⟩ := is_finite_iff.mp hz
  refine ⟨(s != t) && u, ?_⟩
  show roundSigned ((if (s != t) = true then -((a * b : Nat) : Int) else ((a * b : Nat) : Int))
      + (fin u c).toInt * ((unit : Nat) : Int)) unit ((s != t) && u) = _
  congr 2
  cases s <;> cases t <;> simp [toInt]

/-- `fma_fin`: a fused multiply-add whose rounded magnitude is in range is finite with value
`RN((x·y + z·2^1074) / 2^1074)` -/
theorem fma_spec {x y z : F64} (hx : x.is_finite = true) (hy : y.is_finite = true)
    (hz : z.is_finite = true)
    (h : roundQ (x.toInt * y.toInt + z.toInt * (unit : Int)).natAbs unit ≤ maxFin) :
    (fma x y z).is_finite = true ∧
      (fma x y z).toInt = rqI (x.toInt * y.toInt + z.toInt * (unit : Int)) unit := by
  obtain ⟨zs, e⟩ := fma_eq hx hy hz
  rw [e]; exact roundSigned_spec _ _ h

/-- exact fused multiply-add: `2^1074 ∣ x·y + z·2^1074` with a representable quotient in range -/
theorem fma_exact {x y z : F64} (hx : x.is_finite = true) (hy : y.is_finite = true)
    (hz : z.is_finite = true) {q : Int}
    (hq : x.toInt * y.toInt + z.toInt * (unit : Int) = q * (unit : Int)) (hr : RepI q)
    (hm : |q| ≤ (maxFin : Int)) :
    (fma x y z).is_finite = true ∧ (fma x y z).toInt = q := by
  have e : rqI (x.toInt * y.toInt + z.toInt * (unit : Int)) unit = q := by
    rw [hq, rqI_mul_right _ unit_pos, rnI_of_repI hr]
  have := fma_spec hx hy hz (by rw [← natAbs_rqI, e]; exact natAbs_le_of_abs_le hm)
  rwa [e] at this

/-! ## division of finite operands -/

/-- signed correctly rounded quotient `RN(p / q)` of two integers (53 significant bits, unbounded exponent) -/
def rdI (p q : Int) : Int := Int.sign p * Int.sign q * ((roundQ p.natAbs q.natAbs : Nat) : Int)

@[simp] theorem rdI_zero_left (q : Int) : rdI 0 q = 0 := by simp [rdI]

theorem natAbs_rdI {p q : Int} (hp : p ≠ 0) (hq : q ≠ 0) :
    (rdI p q).natAbs = roundQ p.natAbs q.natAbs := by
  unfold rdI
  rw [Int.natAbs_mul, Int.natAbs_mul, Int.natAbs_sign_of_ne_zero hp, Int.natAbs_sign_of_ne_zero hq,
    Int.natAbs_natCast]
  simp

theorem natAbs_rdI' (p : Int) {q : Int} (hq : q ≠ 0) :
    (rdI p q).natAbs = roundQ p.natAbs q.natAbs := by
  by_cases hp : p = 0
  · subst hp; simp
  · exact natAbs_rdI hp hq

theorem abs_rdI (p : Int) {q : Int} (hq : q ≠ 0) :
    |rdI p q| = ((roundQ p.natAbs q.natAbs : Nat) : Int) := by
  rw [← natAbs_rdI' p hq, Int.natCast_natAbs]

theorem repI_rdI (p : Int) {q : Int} (hq : q ≠ 0) : RepI (rdI p q) := by
  unfold RepI; rw [natAbs_rdI' p hq]
  exact roundQ_rep _ _ (Int.natAbs_pos.2 hq)

/-- the rounded quotient is a multiple of its ulp `2^e`, `e = ⌊log2 (|p| / |q|)⌋ - 52` -/
theorem rdI_dvd (p q : Int) :
    (2 : Int) ^ (Nat.log2 (p.natAbs / q.natAbs) - 52) ∣ rdI p q := by
  unfold rdI
  apply Dvd.dvd.mul_left
  rw [roundQ_eq]
  push_cast
  exact Dvd.intro_left _ rfl

/-- half-ulp error bound of the rounded quotient, cross-multiplied -/
theorem rdI_err (p : Int) {q : Int} (hq : q ≠ 0) :
    2 * |rdI p q * q - p| ≤ |q| * 2 ^ (Nat.log2 (p.natAbs / q.natAbs) - 52) := by
  have h := roundQ_abs_err p.natAbs q.natAbs (Int.natAbs_pos.2 hq)
  rw [Int.natCast_mul, Int.natCast_natAbs, Int.natCast_natAbs, Int.natCast_pow] at h
  have e : rdI p q * q - p
      = Int.sign p * (((roundQ p.natAbs q.natAbs : Nat) : Int) * |q| - |p|) := by
    unfold rdI
    have h1 : Int.sign q * q = |q| := Int.sign_mul_self_eq_abs q
    have h2 : Int.sign p * |p| = p := Int.sign_mul_abs p
    calc Int.sign p * Int.sign q * ((roundQ p.natAbs q.natAbs : Nat) : Int) * q - p
        = Int.sign p * ((roundQ p.natAbs q.natAbs : Nat) : Int) * (Int.sign q * q)
            - Int.sign p * |p| := by rw [h2]; ring
      _ = _ := by rw [h1]; ring
  by_cases hp : p = 0
  · subst hp
    simp only [rdI_zero_left, Int.zero_mul, Int.sub_zero, abs_zero, Int.mul_zero]
    positivity
  · rw [e, abs_mul, Int.abs_sign_of_ne_zero hp, Int.one_mul]
    exact h

/-- `div_fin`: a quotient by a non-zero finite divisor whose rounded magnitude is in range is finite with
value `RN(x·2^1074 / y)` -/
theorem div_spec {x y : F64} (hx : x.is_finite = true) (hy : y.is_finite = true) (hy0 : y.toInt ≠ 0)
    (h : roundQ (x.toInt * (unit : Int)).natAbs y.toInt.natAbs ≤ maxFin) :
    (div x y).is_finite = true ∧ (div x y).toInt = rdI (x.toInt * (unit : Int)) y.toInt := by
  obtain ⟨s, a, rfl⟩ := is_finite_iff.mp hx
  obtain ⟨t, b, rfl⟩ := is_finite_iff.mp hy
  have hb : b ≠ 0 := by
    intro hb; apply hy0; rw [hb]; exact toInt_zero t
  have hn : ((fin s a).toInt * (unit : Int)).natAbs = a * unit := by
    rw [Int.natAbs_mul, natAbs_toInt_fin, Int.natAbs_natCast]
  rw [hn, natAbs_toInt_fin] at h
  simp only [div]
  rw [if_neg hb]
  by_cases ha : a = 0
  · subst ha
    rw [if_pos rfl]
    refine ⟨rfl, ?_⟩
    rw [toInt_zero, toInt_zero, Int.zero_mul, rdI_zero_left]
  · rw [if_neg ha]
    have hp : pack (s != t) (roundQ (a * unit) b) = fin (s != t) (roundQ (a * unit) b) := pack_fin h
    change (pack (s != t) (roundQ (a * unit) b)).is_finite = true ∧
      (pack (s != t) (roundQ (a * unit) b)).toInt = _
    rw [hp]
    refine ⟨rfl, ?_⟩
    unfold rdI
    rw [hn, natAbs_toInt_fin]
    have hu : (0 : Int) < (unit : Int) := Int.natCast_pos.2 unit_pos
    have ha' : (0 : Int) < (a : Int) := by omega
    have hb' : (0 : Int) < (b : Int) := by omega
    have s1 : Int.sign ((a : Int) * (unit : Int)) = 1 := Int.sign_eq_one_of_pos (Int.mul_pos ha' hu)
    have s2 : Int.sign (-(a : Int) * (unit : Int)) = -1 :=
      Int.sign_eq_neg_one_of_neg (by have := Int.mul_pos ha' hu; rw [Int.neg_mul]; omega)
    have s3 : Int.sign (b : Int) = 1 := Int.sign_eq_one_of_pos hb'
    have s4 : Int.sign (-(b : Int)) = -1 := Int.sign_eq_neg_one_of_neg (by omega)
    cases s <;> cases t <;> simp only [toInt, s1, s2, s3, s4] <;> simp

/-! ## finiteness helpers -/

theorem is_finite_of_add {x y : F64} (h : (add x y).is_finite = true) :
    x.is_finite = true ∧ y.is_finite = true := by
  cases x with
  | nan => exact absurd h (by simp [add, is_finite])
  | inf s =>
    cases y with
    | nan => exact absurd h (by simp [add, is_finite])
    | inf t => simp only [add] at h; split_ifs at h <;> simp [is_finite] at h
    | fin t b => exact absurd h (by simp [add, is_finite])
  | fin s a =>
    cases y with
    | nan => exact absurd h (by simp [add, is_finite])
    | inf t => exact absurd h (by simp [add, is_finite])
    | fin t b => exact ⟨rfl, rfl⟩

end F64
