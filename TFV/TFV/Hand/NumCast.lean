/-
Hand model of the one generic function of the conversion layer that `xlate` does not translate:

    impl num_traits::NumCast for TwoFloat { fn from<T: ToPrimitive>(n: T) -> Option<Self> { … } }   (src/num_integration.rs)

The argument `n` is used only through `n.to_f64()`, `n.to_i128()` and `n.to_u128()`, so the generic function is a
function of those three answers (`ToPrim`).  `ToPrim.ofInt` / `ToPrim.ofF64` / `ToPrim.ofF32` record what num_traits
0.2.19 (`src/cast.rs`, `impl_to_primitive_int!`, `impl_to_primitive_float!`) answers for the primitive types.

Tie to the code: (1) the text of the function is hashed (`TFV/model/hand_sources.json`, key `NumCast::from`) — a
textual change is a broken obligation of C09; (2) correspondence: harness ops `numcast.<type> n` call
`<TwoFloat as NumCast>::from(n)` in-process and the driver op `numcast.int` / `numcast.f64` / `numcast.f32` evaluates
this model; the outputs are compared bit for bit on every run.
No Mathlib imports (the driver links this file).
-/
import TFV.Gen

namespace Hand

/-- the three `ToPrimitive` answers `NumCast::from` asks of its argument -/
structure ToPrim where
  f64 : Option F64
  i128 : Option I128
  u128 : Option U128

/-- `const INT_THRESHOLD: f64 = hexf64!("0x1.0p53")` -/
def numCastThreshold : F64 := f64lit 0x4340000000000000

/-- `<TwoFloat as NumCast>::from(n)`, line by line -/
def numCastFrom (n : ToPrim) : Option TwoFloat :=
  match n.f64 with
  | some f =>
    if F64.lt (F64.abs f) numCastThreshold then
      some (convert.impl_From_f64_for_TwoFloat.from f)
    else
      match n.i128 with
      | some i => some (convert.impl_From_i128_for_TwoFloat.from i)
      | none =>
        some (match n.u128 with
          | none => convert.impl_From_f64_for_TwoFloat.from f
          | some u => convert.impl_From_u128_for_TwoFloat.from u)
  | none =>
    match n.i128 with
    | some i => some (convert.impl_From_i128_for_TwoFloat.from i)
    | none => n.u128.map convert.impl_From_u128_for_TwoFloat.from

/-- the panic-free predicate of the same body (the wide `From` impls carry integer subtractions) -/
def numCastFrom.pf (n : ToPrim) : Bool :=
  match n.f64 with
  | some f =>
    if F64.lt (F64.abs f) numCastThreshold then true
    else
      match n.i128 with
      | some i => convert.impl_From_i128_for_TwoFloat.from.pf i
      | none =>
        (match n.u128 with
          | none => true
          | some u => convert.impl_From_u128_for_TwoFloat.from.pf u)
  | none =>
    match n.i128 with
    | some i => convert.impl_From_i128_for_TwoFloat.from.pf i
    | none => (match n.u128 with | none => true | some u => convert.impl_From_u128_for_TwoFloat.from.pf u)

/-- every primitive integer type: `to_f64` is the `as` cast, `to_i128` / `to_u128` succeed iff the value fits -/
def ToPrim.ofInt (z : Int) : ToPrim :=
  { f64 := some (F64.ofInt z)
    i128 := if IntN.fits true 128 z then some ⟨z⟩ else none
    u128 := if IntN.fits false 128 z then some ⟨z⟩ else none }

/-- `f64`: `to_f64` is the identity; `to_i128` succeeds iff `-2^127 <= x < 2^127`, `to_u128` iff `-1 < x < 2^128`,
both with the truncating cast -/
def ToPrim.ofF64 (x : F64) : ToPrim :=
  { f64 := some x
    i128 := if F64.le (F64.ofInt (-(2 ^ 127 : Nat))) x && F64.lt x (F64.ofInt (2 ^ 127 : Nat))
            then some ⟨F64.toIntSat true 128 x⟩ else none
    u128 := if F64.lt (F64.ofInt (-1)) x && F64.lt x (F64.ofInt (2 ^ 128 : Nat))
            then some ⟨F64.toIntSat false 128 x⟩ else none }

/-- `f32`: `to_f64` is the exact widening; the range tests compare the same values -/
def ToPrim.ofF32 (x : F32) : ToPrim := ToPrim.ofF64 x.toF64

end Hand
