/-
Hand.Serde — hand-written model of src/serialization.rs and src/format.rs (DESIGN §2.5).
These two files are not translated (they are generic over serde's / core::fmt's traits); the model below is
tied to the real impls by the correspondence run only (harness ops `de_seq`, `de_map`, `ser`, `fmt`).
-/
import TFV.Gen

namespace Hand

inductive DeErr where
  | invalid_length | duplicate_field | missing_field | unknown_field | invalid_value
deriving DecidableEq, Repr, Inhabited

/-- the final step of both visitors: `TwoFloat::try_from((hi, lo)).map_err(invalid_value)` -/
def finish (hi lo : F64) : Except DeErr TwoFloat :=
  match convert.impl_TryFrom_tup_f64_f64_for_TwoFloat.try_from (hi, lo) with
  | .ok t => .ok t
  | .error _ => .error .invalid_value

/-- `visit_seq` driven by a sequence of exactly the given elements (a value deserializer also rejects
trailing elements) -/
def deSeq (xs : List F64) : Except DeErr TwoFloat :=
  match xs with
  | hi :: lo :: rest =>
    -- the visitor reads two elements and validates them; the driving deserializer only then objects to trailing elements
    match finish hi lo with
    | .ok t => if rest.isEmpty then .ok t else .error .invalid_length
    | .error e => .error e
  | _ => .error .invalid_length

/-- the key loop of `visit_map`: state = (hi?, lo?) -/
def mapLoop : List (String × F64) → Option F64 → Option F64 → Except DeErr (Option F64 × Option F64)
  | [], hi, lo => .ok (hi, lo)
  | (k, v) :: rest, hi, lo =>
    if k = "hi" then
      (if hi.isSome then .error .duplicate_field else mapLoop rest (some v) lo)
    else if k = "lo" then
      (if lo.isSome then .error .duplicate_field else mapLoop rest hi (some v))
    else .error .unknown_field

def deMap (kvs : List (String × F64)) : Except DeErr TwoFloat :=
  match mapLoop kvs none none with
  | .error e => .error e
  | .ok (some hi, some lo) => finish hi lo
  | .ok _ => .error .missing_field

/-- what `Serialize` emits: struct name, declared length, fields in order -/
def ser (t : TwoFloat) : String × Nat × List (String × F64) := ("TwoFloat", 2, [("hi", t.hi), ("lo", t.lo)])

/-- the shape of all three formatting impls, given the renderings of hi and |lo| by core::fmt -/
def fmtShape (rhi rlo : String) (lo : F64) : String :=
  rhi ++ " " ++ (if F64.is_sign_positive lo then "+" else "-") ++ " " ++ rlo

end Hand
