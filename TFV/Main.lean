import TFV.Dispatch
import TFV.Extra

/-- line protocol driver: `op arg...` per line on stdin, one answer per line on stdout -/
partial def loop (h : IO.FS.Stream) (out : IO.FS.Stream) : IO Unit := do
  let line ← h.getLine
  if line.isEmpty then return ()
  let ws := (line.trimAscii.toString.splitOn " ").filter (· ≠ "")
  match ws with
  | [] => out.putStrLn "bad-op"
  | op :: args =>
    match Dispatch.run op args.toArray with
    | some r => out.putStrLn r
    | none =>
      match Extra.run op args.toArray with
      | some r => out.putStrLn r
      | none => out.putStrLn "bad-op"
  loop h out

def main : IO Unit := do
  let stdin ← IO.getStdin
  let stdout ← IO.getStdout
  loop stdin stdout
