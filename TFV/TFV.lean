import TFV.Prelude.F64
