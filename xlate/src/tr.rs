// Indexing of the crate and translation of items.
use crate::ir::L;
use crate::ty::{int_ty, Ty};
use std::collections::{BTreeMap, BTreeSet, HashMap};
use syn::*;

#[derive(Clone, Debug)]
pub struct FnInfo {
    pub lean: String,
    pub params: Vec<(String, Ty)>, // includes self as "self"
    pub ret: Ty,
    pub mut_self: bool, // &mut self: the Lean function returns the new self
    pub module: String,
    pub rust_call: Option<String>, // Rust expression prefix to call it from outside the crate
    pub generic: bool,
}

#[derive(Clone, Debug)]
pub struct ImplInfo {
    pub trait_: Option<String>,
    pub trait_args: Vec<Ty>,
    pub self_ty: Ty,
    pub prefix: String,
    pub methods: BTreeMap<String, FnInfo>,
    pub consts: BTreeMap<String, (String, Ty)>,
    pub generic: bool,
}

#[derive(Clone, Debug)]
pub struct Def {
    pub name: String,
    pub params: Vec<(String, String)>,
    pub ret: String,
    pub body: L,
    pub is_const: bool,
    pub fuel_rec: Option<L>, // Some(exhausted value): emitted as  | 0, .. => exhausted | fuel+1, .. => body
    pub module: String,
    pub generic_header: String, // e.g. "{T : Type} [RAdd TwoFloat T TwoFloat] "
    pub info: Option<FnInfo>,
    pub src_order: usize,
    pub instance: Option<String>, // instance line to emit after the def
}

pub struct Crate {
    pub free_fns: HashMap<(String, String), FnInfo>,
    pub mod_consts: HashMap<(String, String), (String, Ty)>,
    pub impls: Vec<ImplInfo>,
    pub uses: HashMap<String, HashMap<String, Vec<String>>>,
    pub defs: Vec<Def>,
    pub failed: Vec<(String, String)>,
    pub order: usize,
    pub cfg_items: Vec<String>,
}

pub const SKIP_TRAITS: &[&str] = &[
    "Debug", "Clone", "Copy", "TrivialClone", "Display", "LowerExp", "UpperExp", "Error", "Serialize", "Deserialize",
    "Visitor", "StructuralPartialEq",
];

pub fn last_seg(p: &Path) -> String {
    p.segments.last().unwrap().ident.to_string()
}
pub fn path_strs(p: &Path) -> Vec<String> {
    p.segments.iter().map(|s| s.ident.to_string()).collect()
}

pub fn parse_ty(t: &Type, self_ty: Option<&Ty>, generics: &[String]) -> Ty {
    match t {
        Type::Path(tp) => {
            if let Some(q) = &tp.qself {
                // <Self as Trait>::Output etc.
                let _ = q;
                if last_seg(&tp.path) == "Output" {
                    return Ty::TF;
                }
                return Ty::Unknown;
            }
            let segs = path_strs(&tp.path);
            let last = segs.last().unwrap().as_str();
            if segs.len() == 2 && segs[0] == "Self" {
                return match last {
                    "Output" => Ty::TF,
                    "Error" | "FromStrRadixErr" => Ty::Named("TwoFloatError".into()),
                    _ => Ty::Unknown,
                };
            }
            if generics.iter().any(|g| g == last) && segs.len() == 1 {
                return Ty::Param(last.to_string());
            }
            match last {
                "f64" => Ty::F64,
                "f32" => Ty::F32,
                "bool" => Ty::Bool,
                "TwoFloat" => Ty::TF,
                "Self" => self_ty.cloned().unwrap_or(Ty::Unknown),
                "FpCategory" | "Ordering" | "TwoFloatError" => Ty::Named(last.to_string()),
                "Option" | "Result" => {
                    let seg = tp.path.segments.last().unwrap();
                    if let PathArguments::AngleBracketed(ab) = &seg.arguments {
                        if let Some(GenericArgument::Type(inner)) = ab.args.first() {
                            let i = parse_ty(inner, self_ty, generics);
                            return if last == "Option" { Ty::Opt(Box::new(i)) } else { Ty::Res(Box::new(i)) };
                        }
                    }
                    Ty::Unknown
                }
                n => int_ty(n).unwrap_or(Ty::Unknown),
            }
        }
        Type::Reference(r) => Ty::Ref(Box::new(parse_ty(&r.elem, self_ty, generics))),
        Type::Tuple(t) => {
            if t.elems.is_empty() {
                Ty::Unit
            } else {
                Ty::Tuple(t.elems.iter().map(|e| parse_ty(e, self_ty, generics)).collect())
            }
        }
        Type::Array(a) => {
            let n = match &a.len {
                Expr::Lit(ExprLit { lit: Lit::Int(i), .. }) => i.base10_parse::<usize>().ok(),
                _ => None,
            };
            Ty::Arr(Box::new(parse_ty(&a.elem, self_ty, generics)), n)
        }
        Type::Slice(s) => Ty::Arr(Box::new(parse_ty(&s.elem, self_ty, generics)), None),
        Type::Paren(p) => parse_ty(&p.elem, self_ty, generics),
        Type::Group(p) => parse_ty(&p.elem, self_ty, generics),
        _ => Ty::Unknown,
    }
}

fn has_unknown(t: &Ty) -> bool {
    match t {
        Ty::Unknown => true,
        Ty::Tuple(v) => v.iter().any(has_unknown),
        Ty::Arr(t, _) | Ty::Ref(t) | Ty::Opt(t) | Ty::Res(t) => has_unknown(t),
        _ => false,
    }
}

impl Crate {
    pub fn new() -> Self {
        Crate {
            free_fns: HashMap::new(),
            mod_consts: HashMap::new(),
            impls: vec![],
            uses: HashMap::new(),
            defs: vec![],
            failed: vec![],
            order: 0,
            cfg_items: vec![],
        }
    }

    // ---------------------------------------------------------------- indexing

    pub fn index_file(&mut self, f: &File) {
        self.index_items(&f.items, "lib");
    }

    fn index_items(&mut self, items: &[Item], module: &str) {
        for it in items {
            match it {
                Item::Mod(m) => {
                    if let Some((_, its)) = &m.content {
                        let name = m.ident.to_string();
                        if name == "tests" || name == "test" || name == "test_util" {
                            continue;
                        }
                        self.index_items(its, &name);
                    }
                }
                Item::Use(u) => {
                    let mut out = vec![];
                    flatten_use(&u.tree, vec![], &mut out);
                    let m = self.uses.entry(module.to_string()).or_default();
                    for (name, path) in out {
                        m.insert(name, path);
                    }
                }
                Item::Fn(f) => {
                    let generics: Vec<String> = f.sig.generics.type_params().map(|p| p.ident.to_string()).collect();
                    let name = f.sig.ident.to_string();
                    let mut info = self.sig_info(&f.sig, None, module, format!("{}.{}", module, name), &generics);
                    if name == "no_overlap" {
                        // `pub use base::no_overlap;` — the only free function exported by the crate
                        info.rust_call = Some("twofloat::no_overlap".into());
                    }
                    self.free_fns.insert((module.to_string(), name), info);
                }
                Item::Const(c) => {
                    let name = c.ident.to_string();
                    let ty = parse_ty(&c.ty, None, &[]);
                    self.mod_consts.insert((module.to_string(), name.clone()), (format!("{}.{}", module, name), ty));
                }
                Item::Impl(im) => self.index_impl(im, module),
                _ => {}
            }
        }
    }

    fn sig_info(&self, sig: &Signature, self_ty: Option<&Ty>, module: &str, lean: String, generics: &[String]) -> FnInfo {
        let mut params = vec![];
        let mut mut_self = false;
        for a in &sig.inputs {
            match a {
                FnArg::Receiver(r) => {
                    let st = self_ty.cloned().unwrap_or(Ty::Unknown);
                    if r.reference.is_some() {
                        if r.mutability.is_some() {
                            mut_self = true;
                        }
                        params.push(("self".to_string(), Ty::Ref(Box::new(st))));
                    } else {
                        params.push(("self".to_string(), st));
                    }
                }
                FnArg::Typed(pt) => {
                    let name = match &*pt.pat {
                        Pat::Ident(pi) => pi.ident.to_string(),
                        _ => "_".to_string(),
                    };
                    params.push((name, parse_ty(&pt.ty, self_ty, generics)));
                }
            }
        }
        let ret = match &sig.output {
            ReturnType::Default => Ty::Unit,
            ReturnType::Type(_, t) => parse_ty(t, self_ty, generics),
        };
        FnInfo { lean, params, ret, mut_self, module: module.to_string(), rust_call: None, generic: !generics.is_empty() }
    }

    fn index_impl(&mut self, im: &ItemImpl, module: &str) {
        let generics: Vec<String> = im.generics.type_params().map(|p| p.ident.to_string()).collect();
        let self_ty = parse_ty(&im.self_ty, None, &generics);
        let (trait_, trait_args) = match &im.trait_ {
            Some((_, p, _)) => {
                let seg = p.segments.last().unwrap();
                let mut args = vec![];
                if let PathArguments::AngleBracketed(ab) = &seg.arguments {
                    for a in &ab.args {
                        if let GenericArgument::Type(t) = a {
                            args.push(parse_ty(t, Some(&self_ty), &generics));
                        }
                    }
                }
                (Some(seg.ident.to_string()), args)
            }
            None => (None, vec![]),
        };
        if let Some(t) = &trait_ {
            if SKIP_TRAITS.contains(&t.as_str()) {
                return;
            }
        }
        let prefix = match &trait_ {
            None => self_ty.lean(),
            Some(t) => {
                let mut s = format!("{}.impl_{}", module, t);
                for a in &trait_args {
                    s += &format!("_{}", a.mangle());
                }
                s += &format!("_for_{}", self_ty.mangle());
                s
            }
        };
        let mut info = ImplInfo {
            trait_: trait_.clone(),
            trait_args: trait_args.clone(),
            self_ty: self_ty.clone(),
            prefix: prefix.clone(),
            methods: BTreeMap::new(),
            consts: BTreeMap::new(),
            generic: !generics.is_empty(),
        };
        for ii in &im.items {
            match ii {
                ImplItem::Fn(f) => {
                    let mut g = generics.clone();
                    g.extend(f.sig.generics.type_params().map(|p| p.ident.to_string()));
                    let name = f.sig.ident.to_string();
                    // inherent accessors `hi()` / `lo()` would clash with the structure fields
                    let lname = if trait_.is_none() && (name == "hi" || name == "lo") { format!("{}_m", name) } else { name.clone() };
                    let mut fi = self.sig_info(&f.sig, Some(&self_ty), module, format!("{}.{}", prefix, lname), &g);
                    fi.generic = !g.is_empty();
                    // how to call it from outside the crate
                    let public = matches!(f.vis, Visibility::Public(_)) || trait_.is_some();
                    if public && !fi.generic {
                        fi.rust_call = Some(match &trait_ {
                            None => format!("{}::{}", self_ty.rust(), name),
                            Some(_) => {
                                let (_, p, _) = im.trait_.as_ref().unwrap();
                                let tp = quote::quote!(#p).to_string().replace(' ', "");
                                let tp = tp.replace("&'a", "&").replace("&'b", "&");
                                format!("<{} as {}>::{}", self_ty.rust(), fix_trait_path(&tp), name)
                            }
                        });
                    }
                    info.methods.insert(name, fi);
                }
                ImplItem::Const(c) => {
                    let name = c.ident.to_string();
                    let ty = parse_ty(&c.ty, Some(&self_ty), &generics);
                    info.consts.insert(name.clone(), (format!("{}.{}", prefix, name), ty));
                }
                _ => {}
            }
        }
        self.impls.push(info);
    }

    // ---------------------------------------------------------------- lookup helpers

    pub fn inherent_method(&self, ty: &Ty, name: &str) -> Option<&FnInfo> {
        let e = ty.erase();
        self.impls.iter().filter(|i| i.trait_.is_none() && i.self_ty == e).find_map(|i| i.methods.get(name))
    }
    pub fn inherent_const(&self, ty: &Ty, name: &str) -> Option<&(String, Ty)> {
        let e = ty.erase();
        self.impls.iter().filter(|i| i.trait_.is_none() && i.self_ty == e).find_map(|i| i.consts.get(name))
    }

    /// find a trait impl method: exact reference-ness first, then modulo references
    pub fn trait_method(&self, trait_: Option<&str>, self_ty: &Ty, name: &str, args: &[Ty]) -> Option<&FnInfo> {
        let cands: Vec<&ImplInfo> = self
            .impls
            .iter()
            .filter(|i| i.trait_.is_some() && !i.generic && trait_.map_or(true, |t| i.trait_.as_deref() == Some(t)) && i.methods.contains_key(name))
            .collect();
        let arg_ok = |f: &FnInfo, exact: bool| {
            let ps: Vec<&Ty> = f.params.iter().filter(|(n, _)| n != "self").map(|(_, t)| t).collect();
            ps.len() == args.len()
                && ps.iter().zip(args).all(|(p, a)| *a == Ty::Unknown || if exact { **p == *a } else { p.erase() == a.erase() })
        };
        // exact self type and exact args
        for exact_args in [true, false] {
            for i in &cands {
                if &i.self_ty == self_ty && arg_ok(&i.methods[name], exact_args) {
                    return i.methods.get(name);
                }
            }
        }
        // method-call autoref / auto-deref on the receiver: prefer the by-value-of-&T form the compiler would probe next
        let e = self_ty.erase();
        for exact_args in [true, false] {
            for i in &cands {
                if i.self_ty.erase() == e && arg_ok(&i.methods[name], exact_args) {
                    return i.methods.get(name);
                }
            }
        }
        None
    }

    /// operator impl `impl Trait<Rhs> for Lhs`
    pub fn op_impl(&self, trait_: &str, lhs: &Ty, rhs: Option<&Ty>, method: &str) -> Option<&FnInfo> {
        let matches = |i: &&ImplInfo, exact: bool| {
            if i.trait_.as_deref() != Some(trait_) || i.generic {
                return false;
            }
            let l_ok = if exact { &i.self_ty == lhs } else { i.self_ty.erase() == lhs.erase() };
            let r_ok = match rhs {
                None => true,
                Some(r) => {
                    let ia = i.trait_args.first().cloned().unwrap_or_else(|| i.self_ty.clone());
                    if exact { &ia == r } else { ia.erase() == r.erase() }
                }
            };
            l_ok && r_ok
        };
        self.impls
            .iter()
            .find(|i| matches(i, true))
            .or_else(|| {
                // modulo references: prefer the (&, &) kernel when it exists
                let mut c: Vec<&ImplInfo> = self.impls.iter().filter(|i| matches(i, false)).collect();
                c.sort_by_key(|i| {
                    let r = |t: &Ty| if matches!(t, Ty::Ref(_)) { 0 } else { 1 };
                    r(&i.self_ty) + i.trait_args.first().map_or(0, r)
                });
                c.first().copied()
            })
            .and_then(|i| i.methods.get(method))
    }

    pub fn resolve_use(&self, module: &str, name: &str) -> Option<&Vec<String>> {
        self.uses.get(module).and_then(|m| m.get(name))
    }

    // ---------------------------------------------------------------- translation driver

    pub fn translate_all(&mut self, f: &File) {
        self.translate_items(&f.items, "lib");
    }

    fn translate_items(&mut self, items: &[Item], module: &str) {
        for it in items {
            match it {
                Item::Mod(m) => {
                    if let Some((_, its)) = &m.content {
                        let name = m.ident.to_string();
                        if name == "tests" || name == "test" || name == "test_util" || name == "format" || name == "serialization" {
                            continue;
                        }
                        self.translate_items(its, &name);
                    }
                }
                Item::Fn(f) => {
                    let name = f.sig.ident.to_string();
                    let info = self.free_fns[&(module.to_string(), name.clone())].clone();
                    self.translate_fn(&info, &f.block, None, module, "");
                }
                Item::Const(c) => {
                    let name = c.ident.to_string();
                    let (lean, ty) = self.mod_consts[&(module.to_string(), name)].clone();
                    self.translate_const(&lean, &ty, &c.expr, None, module);
                }
                Item::Impl(im) => self.translate_impl(im, module),
                _ => {}
            }
        }
    }

    fn translate_impl(&mut self, im: &ItemImpl, module: &str) {
        let generics: Vec<String> = im.generics.type_params().map(|p| p.ident.to_string()).collect();
        let self_ty = parse_ty(&im.self_ty, None, &generics);
        let trait_name = im.trait_.as_ref().map(|(_, p, _)| last_seg(p));
        if let Some(t) = &trait_name {
            if SKIP_TRAITS.contains(&t.as_str()) {
                return;
            }
        }
        // find the indexed ImplInfo (same order of appearance: match on prefix)
        let first_item: Option<String> = im.items.iter().find_map(|ii| match ii {
            ImplItem::Fn(f) => Some(f.sig.ident.to_string()),
            ImplItem::Const(c) => Some(c.ident.to_string()),
            _ => None,
        });
        let idx = self.impls.iter().position(|i| {
            i.self_ty == self_ty
                && first_item.as_ref().map_or(true, |n| i.methods.contains_key(n) || i.consts.contains_key(n))
                && i.trait_ == trait_name
                && i.trait_args
                    == match &im.trait_ {
                        Some((_, p, _)) => {
                            let seg = p.segments.last().unwrap();
                            let mut args = vec![];
                            if let PathArguments::AngleBracketed(ab) = &seg.arguments {
                                for a in &ab.args {
                                    if let GenericArgument::Type(t) = a {
                                        args.push(parse_ty(t, Some(&self_ty), &generics));
                                    }
                                }
                            }
                            args
                        }
                        None => vec![],
                    }
        });
        let Some(idx) = idx else { return };
        let info = self.impls[idx].clone();
        // generic header for `impl<T> Sum<T> for TwoFloat where Self: Add<T, Output = Self>`
        let mut header = String::new();
        if !generics.is_empty() {
            for g in &generics {
                header += &format!("{{{} : Type}} ", g);
            }
            if let Some(w) = &im.generics.where_clause {
                for p in &w.predicates {
                    if let WherePredicate::Type(pt) = p {
                        let bounded = parse_ty(&pt.bounded_ty, Some(&self_ty), &generics);
                        for b in &pt.bounds {
                            if let TypeParamBound::Trait(tb) = b {
                                let seg = tb.path.segments.last().unwrap();
                                let tn = seg.ident.to_string();
                                let cls = match tn.as_str() {
                                    "Add" => "RAdd",
                                    "Sub" => "RSub",
                                    "Mul" => "RMul",
                                    "Div" => "RDiv",
                                    _ => continue,
                                };
                                let mut rhs = Ty::Unknown;
                                if let PathArguments::AngleBracketed(ab) = &seg.arguments {
                                    for a in &ab.args {
                                        if let GenericArgument::Type(t) = a {
                                            rhs = parse_ty(t, Some(&self_ty), &generics);
                                        }
                                    }
                                }
                                header += &format!("[{} {} {} {}] ", cls, bounded.lean(), rhs.lean(), bounded.lean());
                            }
                        }
                    }
                }
            }
        }
        for ii in &im.items {
            match ii {
                ImplItem::Fn(f) => {
                    let name = f.sig.ident.to_string();
                    let fi = info.methods[&name].clone();
                    if !f.sig.generics.params.is_empty() && f.sig.generics.type_params().next().is_some() {
                        // method-level generics: only the Sum::sum<I: Iterator<Item = T>> shape is supported
                        if !(info.trait_.as_deref() == Some("Sum")) {
                            self.failed.push((fi.lean.clone(), "generic method".into()));
                            continue;
                        }
                    }
                    self.translate_fn(&fi, &f.block, Some(&info), module, &header);
                }
                ImplItem::Const(c) => {
                    let name = c.ident.to_string();
                    let (lean, ty) = info.consts[&name].clone();
                    self.translate_const(&lean, &ty, &c.expr, Some(&info), module);
                }
                _ => {}
            }
        }
    }

    fn translate_const(&mut self, lean: &str, ty: &Ty, e: &Expr, im: Option<&ImplInfo>, module: &str) {
        let mut fx = crate::fx::FnCx::new(self, module, im.map(|i| i.self_ty.clone()), ty.clone(), lean.to_string());
        match fx.expr(e, Some(ty)) {
            Ok((l, _)) => {
                let hoisted = std::mem::take(&mut fx.hoisted);
                drop(fx);
                for d in hoisted {
                    self.push_def(d);
                }
                self.push_def(Def {
                    name: lean.to_string(),
                    params: vec![],
                    ret: ty.lean(),
                    body: l,
                    is_const: true,
                    fuel_rec: None,
                    module: module.to_string(),
                    generic_header: String::new(),
                    info: None,
                    src_order: 0,
                    instance: None,
                });
            }
            Err(e) => {
                drop(fx);
                self.failed.push((lean.to_string(), e));
            }
        }
    }

    pub fn push_def(&mut self, mut d: Def) {
        d.src_order = self.order;
        self.order += 1;
        self.defs.push(d);
    }

    fn translate_fn(&mut self, info: &FnInfo, block: &Block, im: Option<&ImplInfo>, module: &str, header: &str) {
        if info.params.iter().any(|(_, t)| has_unknown(t)) || has_unknown(&info.ret) {
            // Sum::sum's iterator parameter is handled inside FnCx
            if !(im.map_or(false, |i| i.trait_.as_deref() == Some("Sum"))) {
                self.failed.push((info.lean.clone(), format!("unsupported type in signature: {:?} -> {:?}", info.params, info.ret)));
                return;
            }
        }
        let self_ty = im.map(|i| i.self_ty.clone());
        let ret = if info.mut_self { self_ty.clone().unwrap() } else { info.ret.clone() };
        let mut fx = crate::fx::FnCx::new(self, module, self_ty, ret.clone(), info.lean.clone());
        let mut params = vec![];
        for (n, t) in &info.params {
            let t2 = if (*t == Ty::Unknown || matches!(t, Ty::Param(_))) && n == "iter" {
                // `iter: I` with `I: Iterator<Item = T>` — modelled as a list
                Ty::Arr(Box::new(Ty::Param("T".into())), None)
            } else {
                t.clone()
            };
            fx.bind(n, t2.clone());
            params.push((crate::fx::lean_ident(n), t2.lean()));
        }
        fx.mut_self = info.mut_self;
        let res = fx.fn_body(block);
        match res {
            Ok(body) => {
                let hoisted = std::mem::take(&mut fx.hoisted);
                let self_rec = fx.self_recursive;
                drop(fx);
                for d in hoisted {
                    self.push_def(d);
                }
                let instance = im.and_then(|i| instance_line(i, info));
                if self_rec {
                    // self-recursive function: fuel-indexed worker plus wrapper
                    let go = format!("{}.go", info.lean);
                    let fuel = crate::fx::rec_fuel(&info.lean);
                    let mut ps = vec![];
                    ps.extend(params.clone());
                    self.push_def(Def {
                        name: go.clone(),
                        params: ps,
                        ret: ret.lean(),
                        body,
                        is_const: false,
                        fuel_rec: Some(L::raw("default")),
                        module: module.to_string(),
                        generic_header: header.to_string(),
                        info: None,
                        src_order: 0,
                        instance: None,
                    });
                    let mut args = vec![L::raw(format!("{}", fuel))];
                    args.extend(params.iter().map(|(n, _)| L::var(n)));
                    self.push_def(Def {
                        name: info.lean.clone(),
                        params,
                        ret: ret.lean(),
                        body: L::App(go, args),
                        is_const: false,
                        fuel_rec: None,
                        module: module.to_string(),
                        generic_header: header.to_string(),
                        info: Some(info.clone()),
                        src_order: 0,
                        instance,
                    });
                } else {
                    self.push_def(Def {
                        name: info.lean.clone(),
                        params,
                        ret: ret.lean(),
                        body,
                        is_const: false,
                        fuel_rec: None,
                        module: module.to_string(),
                        generic_header: header.to_string(),
                        info: Some(info.clone()),
                        src_order: 0,
                        instance,
                    });
                }
            }
            Err(e) => {
                drop(fx);
                self.failed.push((info.lean.clone(), e));
                // keep the rest of the model compilable: a stub with the right type (reported as a broken obligation)
                if !has_unknown(&ret) && !info.params.iter().any(|(_, t)| has_unknown(t)) && header.is_empty() {
                    self.push_def(Def {
                        name: info.lean.clone(),
                        params,
                        ret: ret.lean(),
                        body: L::raw("default /- UNTRANSLATED -/"),
                        is_const: false,
                        fuel_rec: None,
                        module: module.to_string(),
                        generic_header: String::new(),
                        info: Some(info.clone()),
                        src_order: 0,
                        instance: None,
                    });
                }
            }
        }
    }
}

/// by-value operator impls are registered as instances of the R-classes (used by generic code: `Sum`)
fn instance_line(i: &ImplInfo, f: &FnInfo) -> Option<String> {
    let t = i.trait_.as_deref()?;
    let cls = match t {
        "Add" => "RAdd",
        "Sub" => "RSub",
        "Mul" => "RMul",
        "Div" => "RDiv",
        "Rem" => "RRem",
        _ => return None,
    };
    let rhs = i.trait_args.first().cloned().unwrap_or_else(|| i.self_ty.clone());
    if matches!(i.self_ty, Ty::Ref(_)) || matches!(rhs, Ty::Ref(_)) {
        return None;
    }
    Some(format!("instance : {} {} {} {} := ⟨{}⟩", cls, i.self_ty.lean(), rhs.lean(), f.ret.lean(), f.lean))
}

fn fix_trait_path(tp: &str) -> String {
    // expanded paths such as `num_traits::float::FloatCore` or `Add<&f64>` are usable as they are,
    // provided the harness imports core::ops::* and core::convert::*.
    tp.to_string()
}

fn flatten_use(t: &UseTree, prefix: Vec<String>, out: &mut Vec<(String, Vec<String>)>) {
    match t {
        UseTree::Path(p) => {
            let mut pf = prefix.clone();
            pf.push(p.ident.to_string());
            flatten_use(&p.tree, pf, out);
        }
        UseTree::Name(n) => {
            let mut pf = prefix.clone();
            pf.push(n.ident.to_string());
            out.push((n.ident.to_string(), pf));
        }
        UseTree::Rename(r) => {
            let mut pf = prefix.clone();
            pf.push(r.ident.to_string());
            out.push((r.rename.to_string(), pf));
        }
        UseTree::Group(g) => {
            for i in &g.items {
                flatten_use(i, prefix.clone(), out);
            }
        }
        UseTree::Glob(_) => {}
    }
}

pub fn deps_of(d: &Def) -> BTreeSet<String> {
    let mut s = BTreeSet::new();
    d.body.refs(&mut s);
    if let Some(e) = &d.fuel_rec {
        e.refs(&mut s);
    }
    s
}
