// Lean-side intermediate representation, its printer, and the derivation of the panic-freedom predicate.
use std::collections::BTreeSet;

#[derive(Clone, Debug)]
pub enum L {
    Var(String),
    Raw(String),
    App(String, Vec<L>),
    Bin(String, Box<L>, Box<L>),
    Not(Box<L>),
    Let(String, Option<String>, Box<L>, Box<L>),
    If(Box<L>, Box<L>, Box<L>),
    Match(Box<L>, Vec<(String, L)>),
    Tuple(Vec<L>),
    Struct(Vec<(String, L)>),
    Field(Box<L>, String),
    Lam(Vec<String>, Box<L>),
    List(Vec<L>),
    Ann(Box<L>, String),
    /// value = inner; pf additionally requires `IntN.inRange inner`
    RangeChk(Box<L>),
    /// value = inner; pf additionally requires cond
    Chk(Box<L>, Box<L>),
    /// assert!(cond); rest
    Assert(Box<L>, Box<L>),
    /// diverges (panic!): value is `default`, pf is false
    Panic,
}

fn ind(n: usize) -> String {
    "  ".repeat(n)
}

impl L {
    pub fn app(f: &str, args: Vec<L>) -> L {
        L::App(f.to_string(), args)
    }
    pub fn var(s: &str) -> L {
        L::Var(s.to_string())
    }
    pub fn raw(s: impl Into<String>) -> L {
        L::Raw(s.into())
    }

    fn is_atom(&self) -> bool {
        match self {
            L::Var(_) | L::Tuple(_) | L::List(_) | L::Ann(..) | L::Struct(_) | L::Panic => true,
            L::Raw(s) => !s.contains(' ') || (s.starts_with('(') && s.ends_with(')')),
            L::App(_, a) => a.is_empty(),
            L::Field(..) => true,
            L::RangeChk(i) => i.is_atom(),
            L::Chk(_, v) => v.is_atom(),
            _ => false,
        }
    }

    /// single-line rendering, parenthesised when not atomic
    pub fn inl(&self) -> String {
        if self.is_atom() {
            self.inl0()
        } else {
            format!("({})", self.inl0())
        }
    }

    pub fn inl0(&self) -> String {
        match self {
            L::Var(s) | L::Raw(s) => s.clone(),
            L::App(f, a) => {
                if a.is_empty() {
                    f.clone()
                } else {
                    format!("{} {}", f, a.iter().map(|x| x.inl()).collect::<Vec<_>>().join(" "))
                }
            }
            L::Bin(op, a, b) => format!("{} {} {}", a.inl(), op, b.inl()),
            L::Not(a) => format!("!{}", a.inl()),
            L::Let(p, t, e, b) => match t {
                Some(t) => format!("let {} : {} := {}; {}", p, t, e.inl0(), b.inl0()),
                None => format!("let {} := {}; {}", p, e.inl0(), b.inl0()),
            },
            L::If(c, a, b) => format!("if {} then {} else {}", c.inl0(), a.inl0(), b.inl0()),
            L::Match(s, arms) => {
                let mut o = format!("match {} with", s.inl0());
                for (p, b) in arms {
                    o += &format!(" | {} => {}", p, b.inl());
                }
                o
            }
            L::Tuple(v) => format!("({})", v.iter().map(|x| x.inl0()).collect::<Vec<_>>().join(", ")),
            L::Struct(fs) => format!(
                "{{ {} }}",
                fs.iter().map(|(n, v)| format!("{} := {}", n, v.inl0())).collect::<Vec<_>>().join(", ")
            ),
            L::Field(e, f) => format!("{}.{}", e.inl(), f),
            L::Lam(ps, b) => format!("fun {} => {}", ps.join(" "), b.inl0()),
            L::List(v) => format!("[{}]", v.iter().map(|x| x.inl0()).collect::<Vec<_>>().join(", ")),
            L::Ann(e, t) => format!("({} : {})", e.inl0(), t),
            L::RangeChk(i) => i.inl0(),
            L::Chk(_, v) => v.inl0(),
            L::Assert(_, rest) => rest.inl0(),
            L::Panic => "default".into(),
        }
    }

    /// multi-line rendering at indentation level n (the first line is not indented by this function)
    pub fn blk(&self, n: usize) -> String {
        match self {
            L::Let(p, t, e, b) => {
                let rhs = e.rhs(n);
                let ann = t.as_ref().map(|t| format!(" : {}", t)).unwrap_or_default();
                format!("let {}{} := {}\n{}{}", p, ann, rhs, ind(n), b.blk(n))
            }
            L::If(c, a, b) => {
                let mut o = format!("if {} then\n{}{}\n{}", c.inl0(), ind(n + 1), a.blk(n + 1), ind(n));
                match &**b {
                    L::If(..) => o += &format!("else {}", b.blk(n)),
                    _ => o += &format!("else\n{}{}", ind(n + 1), b.blk(n + 1)),
                }
                o
            }
            L::Match(s, arms) => {
                let mut o = format!("match {} with", s.inl0());
                for (p, b) in arms {
                    o += &format!("\n{}| {} =>\n{}{}", ind(n), p, ind(n + 2), b.blk(n + 2));
                }
                o
            }
            L::Assert(_, rest) => rest.blk(n),
            L::Chk(_, v) => v.blk(n),
            L::List(v) if v.len() > 3 => {
                let mut o = String::from("[");
                for (i, x) in v.iter().enumerate() {
                    o += &format!("\n{}{}{}", ind(n + 1), x.inl0(), if i + 1 < v.len() { "," } else { "" });
                }
                o += "]";
                o
            }
            _ => self.inl0(),
        }
    }

    /// right-hand side of a let: compound control flow is parenthesised on one line
    fn rhs(&self, _n: usize) -> String {
        match self {
            L::Let(..) | L::If(..) | L::Match(..) => format!("({})", self.inl0()),
            _ => self.inl0(),
        }
    }

    /// names applied or referenced (over-approximate call graph)
    pub fn refs(&self, out: &mut BTreeSet<String>) {
        match self {
            L::Var(s) => {
                out.insert(s.clone());
            }
            L::Raw(_) | L::Panic => {}
            L::App(f, a) => {
                out.insert(f.clone());
                for x in a {
                    x.refs(out)
                }
            }
            L::Bin(_, a, b) => {
                a.refs(out);
                b.refs(out)
            }
            L::Not(a) | L::Field(a, _) | L::Ann(a, _) | L::RangeChk(a) | L::Lam(_, a) => a.refs(out),
            L::Let(_, _, e, b) => {
                e.refs(out);
                b.refs(out)
            }
            L::If(c, a, b) => {
                c.refs(out);
                a.refs(out);
                b.refs(out)
            }
            L::Match(s, arms) => {
                s.refs(out);
                for (_, b) in arms {
                    b.refs(out)
                }
            }
            L::Tuple(v) | L::List(v) => {
                for x in v {
                    x.refs(out)
                }
            }
            L::Struct(fs) => {
                for (_, v) in fs {
                    v.refs(out)
                }
            }
            L::Chk(c, v) | L::Assert(c, v) => {
                c.refs(out);
                v.refs(out)
            }
        }
    }

    /// panic-freedom predicate of this expression; `None` = trivially true.
    /// `has_pf(name)` says whether a callee has a non-trivial `.pf` definition (with the same arguments).
    pub fn pf(&self, has_pf: &dyn Fn(&str) -> bool) -> Option<L> {
        fn and(a: Option<L>, b: Option<L>) -> Option<L> {
            match (a, b) {
                (None, x) | (x, None) => x,
                (Some(a), Some(b)) => Some(L::Bin("&&".into(), Box::new(a), Box::new(b))),
            }
        }
        fn all<'a>(it: impl Iterator<Item = &'a L>, has_pf: &dyn Fn(&str) -> bool) -> Option<L> {
            let mut acc = None;
            for x in it {
                acc = and(acc, x.pf(has_pf));
            }
            acc
        }
        match self {
            L::Var(_) | L::Raw(_) => None,
            L::App(f, a) => {
                let args = all(a.iter(), has_pf);
                if has_pf(f) {
                    and(args, Some(L::App(format!("{}.pf", f), a.clone())))
                } else {
                    args
                }
            }
            L::Bin(op, a, b) => {
                // short-circuit operators: the right operand is only evaluated when needed
                if op == "&&" {
                    match b.pf(has_pf) {
                        None => a.pf(has_pf),
                        Some(pb) => and(
                            a.pf(has_pf),
                            Some(L::If(a.clone(), Box::new(pb), Box::new(L::raw("true")))),
                        ),
                    }
                } else if op == "||" {
                    match b.pf(has_pf) {
                        None => a.pf(has_pf),
                        Some(pb) => and(
                            a.pf(has_pf),
                            Some(L::If(a.clone(), Box::new(L::raw("true")), Box::new(pb))),
                        ),
                    }
                } else {
                    and(a.pf(has_pf), b.pf(has_pf))
                }
            }
            L::Not(a) | L::Field(a, _) | L::Ann(a, _) => a.pf(has_pf),
            L::Lam(_, b) => {
                // closures are only passed to folds over TwoFloat tables; a non-trivial pf inside is not supported
                match b.pf(has_pf) {
                    None => None,
                    Some(_) => Some(L::raw("false /- closure with panic source: unsupported -/")),
                }
            }
            L::Let(p, t, e, b) => {
                let pe = e.pf(has_pf);
                let pb = b.pf(has_pf).map(|pb| L::Let(p.clone(), t.clone(), e.clone(), Box::new(pb)));
                and(pe, pb)
            }
            L::If(c, a, b) => {
                let pc = c.pf(has_pf);
                let (pa, pb) = (a.pf(has_pf), b.pf(has_pf));
                let rest = if pa.is_none() && pb.is_none() {
                    None
                } else {
                    Some(L::If(
                        c.clone(),
                        Box::new(pa.unwrap_or(L::raw("true"))),
                        Box::new(pb.unwrap_or(L::raw("true"))),
                    ))
                };
                and(pc, rest)
            }
            L::Match(s, arms) => {
                let ps = s.pf(has_pf);
                let pas: Vec<Option<L>> = arms.iter().map(|(_, b)| b.pf(has_pf)).collect();
                let rest = if pas.iter().all(|x| x.is_none()) {
                    None
                } else {
                    Some(L::Match(
                        s.clone(),
                        arms.iter()
                            .zip(pas)
                            .map(|((p, _), pb)| (p.clone(), pb.unwrap_or(L::raw("true"))))
                            .collect(),
                    ))
                };
                and(ps, rest)
            }
            L::Tuple(v) | L::List(v) => all(v.iter(), has_pf),
            L::Struct(fs) => all(fs.iter().map(|(_, v)| v), has_pf),
            L::RangeChk(i) => and(i.pf(has_pf), Some(L::App("IntN.inRange".into(), vec![strip(i)]))),
            L::Chk(c, v) => and(and(c.pf(has_pf), Some(strip(c))), v.pf(has_pf)),
            L::Assert(c, rest) => and(and(c.pf(has_pf), Some(strip(c))), rest.pf(has_pf)),
            L::Panic => Some(L::raw("false")),
        }
    }
}

/// the value part of an expression (check annotations print as their value anyway)
fn strip(l: &L) -> L {
    l.clone()
}
