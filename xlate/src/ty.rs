// Types of the Rust subset the translator understands.
use std::fmt;

#[derive(Clone, Debug, PartialEq, Eq, Hash)]
pub enum Ty {
    F64,
    F32,
    Bool,
    Unit,
    Int(bool, u32, &'static str), // signed, bits, rust name
    TF,
    Tuple(Vec<Ty>),
    Arr(Box<Ty>, Option<usize>), // [T; N] or slice
    Ref(Box<Ty>),
    Opt(Box<Ty>),
    Res(Box<Ty>),
    Named(String), // FpCategory, Ordering, TwoFloatError
    Param(String), // generic parameter
    Unknown,
}

pub const INTS: &[(&str, bool, u32)] = &[
    ("i8", true, 8),
    ("i16", true, 16),
    ("i32", true, 32),
    ("i64", true, 64),
    ("i128", true, 128),
    ("isize", true, 64),
    ("u8", false, 8),
    ("u16", false, 16),
    ("u32", false, 32),
    ("u64", false, 64),
    ("u128", false, 128),
    ("usize", false, 64),
];

pub fn int_ty(name: &str) -> Option<Ty> {
    INTS.iter().find(|(n, _, _)| *n == name).map(|(n, s, b)| Ty::Int(*s, *b, n))
}

impl Ty {
    pub fn erase(&self) -> Ty {
        match self {
            Ty::Ref(t) => t.erase(),
            Ty::Tuple(v) => Ty::Tuple(v.iter().map(|t| t.erase()).collect()),
            Ty::Arr(t, n) => Ty::Arr(Box::new(t.erase()), *n),
            Ty::Opt(t) => Ty::Opt(Box::new(t.erase())),
            Ty::Res(t) => Ty::Res(Box::new(t.erase())),
            t => t.clone(),
        }
    }
    pub fn is_int(&self) -> bool {
        matches!(self.erase(), Ty::Int(..))
    }
    pub fn is_prim_num(&self) -> bool {
        matches!(self.erase(), Ty::Int(..) | Ty::F64 | Ty::F32)
    }
    /// Lean type expression
    pub fn lean(&self) -> String {
        match self {
            Ty::F64 => "F64".into(),
            Ty::F32 => "F32".into(),
            Ty::Bool => "Bool".into(),
            Ty::Unit => "Unit".into(),
            Ty::Int(s, _, n) => {
                let _ = s;
                let mut c = n.chars();
                let f = c.next().unwrap().to_ascii_uppercase();
                format!("{}{}", f, c.as_str())
            }
            Ty::TF => "TwoFloat".into(),
            Ty::Tuple(v) => format!("({})", v.iter().map(|t| t.lean()).collect::<Vec<_>>().join(" × ")),
            Ty::Arr(t, Some(2)) if **t == Ty::F64 => "Arr2".into(),
            Ty::Arr(t, _) => format!("(List {})", t.lean()),
            Ty::Ref(t) => t.lean(),
            Ty::Opt(t) => format!("(Option {})", t.lean()),
            Ty::Res(t) => format!("(RResult {})", t.lean()),
            Ty::Named(n) => match n.as_str() {
                "Ordering" => "ROrdering".into(),
                o => o.into(),
            },
            Ty::Param(p) => p.clone(),
            Ty::Unknown => "_".into(),
        }
    }
    /// name fragment used in generated definition names (keeps reference-ness)
    pub fn mangle(&self) -> String {
        match self {
            Ty::F64 => "f64".into(),
            Ty::F32 => "f32".into(),
            Ty::Bool => "bool".into(),
            Ty::Unit => "unit".into(),
            Ty::Int(_, _, n) => (*n).into(),
            Ty::TF => "TwoFloat".into(),
            Ty::Tuple(v) => format!("tup_{}", v.iter().map(|t| t.mangle()).collect::<Vec<_>>().join("_")),
            Ty::Arr(t, Some(n)) => format!("arr{}_{}", n, t.mangle()),
            Ty::Arr(t, None) => format!("slice_{}", t.mangle()),
            Ty::Ref(t) => format!("r{}", t.mangle()),
            Ty::Opt(t) => format!("opt_{}", t.mangle()),
            Ty::Res(t) => format!("res_{}", t.mangle()),
            Ty::Named(n) => n.clone(),
            Ty::Param(p) => p.clone(),
            Ty::Unknown => "unk".into(),
        }
    }
    /// Rust spelling (for the generated harness)
    pub fn rust(&self) -> String {
        match self {
            Ty::F64 => "f64".into(),
            Ty::F32 => "f32".into(),
            Ty::Bool => "bool".into(),
            Ty::Unit => "()".into(),
            Ty::Int(_, _, n) => (*n).into(),
            Ty::TF => "TwoFloat".into(),
            Ty::Tuple(v) => format!("({})", v.iter().map(|t| t.rust()).collect::<Vec<_>>().join(", ")),
            Ty::Arr(t, Some(n)) => format!("[{}; {}]", t.rust(), n),
            Ty::Arr(t, None) => format!("[{}]", t.rust()),
            Ty::Ref(t) => format!("&{}", t.rust()),
            Ty::Opt(t) => format!("Option<{}>", t.rust()),
            Ty::Res(t) => format!("Result<{}, TwoFloatError>", t.rust()),
            Ty::Named(n) => n.clone(),
            Ty::Param(p) => p.clone(),
            Ty::Unknown => "_".into(),
        }
    }
}

impl fmt::Display for Ty {
    fn fmt(&self, f: &mut fmt::Formatter) -> fmt::Result {
        write!(f, "{}", self.rust())
    }
}
