// Translation of function bodies (expressions, statements) with a light type inference.
use crate::ir::L;
use crate::tr::{last_seg, parse_ty, path_strs, Crate, Def, FnInfo};
use crate::ty::{int_ty, Ty};
use std::collections::HashMap;
use syn::*;

type R<T> = std::result::Result<T, String>;

pub fn lean_ident(n: &str) -> String {
    match n {
        "from" | "at" | "end" | "open" | "fun" | "have" | "show" | "then" | "do" | "in" | "by" | "with" | "from_" | "where" | "instance"
        | "structure" | "class" | "def" | "theorem" | "local" | "prefix" | "infix" | "section" | "namespace" | "variable" | "universe"
        | "export" | "deriving" | "extends" | "mutual" | "partial" | "private" | "protected" | "macro" | "syntax" | "notation" | "using"
        | "calc" | "exists" | "forall" | "Type" | "Prop" | "Sort" => format!("«{}»", n),
        _ => n.to_string(),
    }
}

pub fn rec_fuel(name: &str) -> u64 {
    match name {
        "explog.exp_half" => 2,
        _ => 8,
    }
}
fn loop_fuel(name: &str) -> u64 {
    if name.starts_with("TwoFloat.powi") {
        33
    } else if name.starts_with("explog.mul_pow2") {
        2_100_000
    } else {
        64
    }
}

#[derive(Clone)]
enum Tail {
    Value(Option<Ty>),
    Vars(Vec<String>),
    Call(String, Vec<String>, Vec<String>), // loop def name, captured, vars
}

pub struct FnCx<'a> {
    pub cr: &'a Crate,
    pub module: String,
    pub self_ty: Option<Ty>,
    pub ret: Ty,
    pub fn_name: String,
    scopes: Vec<HashMap<String, Ty>>,
    local_consts: HashMap<String, (String, Ty)>,
    pub hoisted: Vec<Def>,
    pub mut_self: bool,
    pub self_recursive: bool,
    loop_count: usize,
    generics: Vec<String>,
}

fn f64_bits_lit(x: f64) -> L {
    L::raw(format!("(f64lit 0x{:016x})", x.to_bits()))
}

fn int_lit(v: i128, t: &Ty) -> L {
    L::raw(format!("({} : {})", v, t.lean()))
}

fn is_int_lit(e: &Expr) -> bool {
    match e {
        Expr::Lit(ExprLit { lit: Lit::Int(i), .. }) => i.suffix().is_empty(),
        Expr::Paren(p) => is_int_lit(&p.expr),
        Expr::Unary(u) => matches!(u.op, UnOp::Neg(_)) && is_int_lit(&u.expr),
        _ => false,
    }
}

/// literal, or if/else/block whose values are integer literals
fn int_lit_valued(e: &Expr) -> bool {
    match e {
        Expr::If(i) => {
            let t = match i.then_branch.stmts.last() {
                Some(Stmt::Expr(x, None)) => int_lit_valued(x),
                _ => false,
            };
            t && i.else_branch.as_ref().map_or(false, |(_, e)| int_lit_valued(e))
        }
        Expr::Block(b) => match b.block.stmts.last() {
            Some(Stmt::Expr(x, None)) => int_lit_valued(x),
            _ => false,
        },
        e => is_int_lit(e),
    }
}

struct UseFinder<'x> {
    name: &'x str,
    found: Vec<Expr>,
}
impl<'x, 'ast> syn::visit::Visit<'ast> for UseFinder<'x> {
    fn visit_expr_binary(&mut self, b: &'ast ExprBinary) {
        let is_me = |e: &Expr| matches!(e, Expr::Path(p) if p.path.is_ident(self.name));
        if is_me(&b.left) && !is_int_lit(&b.right) {
            self.found.push((*b.right).clone());
        } else if is_me(&b.right) && !is_int_lit(&b.left) && !matches!(b.op, BinOp::Shl(_) | BinOp::Shr(_)) {
            self.found.push((*b.left).clone());
        }
        syn::visit::visit_expr_binary(self, b);
    }
}

fn is_panic_call(e: &Expr) -> bool {
    match e {
        Expr::Call(c) => {
            if let Expr::Path(p) = &*c.func {
                let s = path_strs(&p.path);
                s.iter().any(|x| x == "panic" || x == "begin_panic" || x == "panic_fmt" || x == "panicking")
            } else {
                false
            }
        }
        Expr::Block(b) => b.block.stmts.len() == 1 && stmt_is_panic(&b.block.stmts[0]),
        Expr::Macro(m) => {
            let n = last_seg(&m.mac.path);
            n == "panic" || n == "unreachable" || n == "unimplemented"
        }
        _ => false,
    }
}
fn stmt_is_panic(s: &Stmt) -> bool {
    match s {
        Stmt::Expr(e, _) => is_panic_call(e),
        Stmt::Macro(m) => {
            let n = last_seg(&m.mac.path);
            n == "panic" || n == "unreachable" || n == "unimplemented"
        }
        _ => false,
    }
}

fn block_ends_with_return(b: &Block) -> bool {
    match b.stmts.last() {
        Some(Stmt::Expr(Expr::Return(_), _)) => true,
        _ => false,
    }
}

/// variables assigned (not declared) in a statement list
/// a block that is exactly `{ break; }`
fn is_lone_break(b: &syn::Block) -> bool {
    b.stmts.len() == 1
        && match &b.stmts[0] {
            Stmt::Expr(Expr::Break(br), _) => br.label.is_none() && br.expr.is_none(),
            _ => false,
        }
}

fn assigned(ss: &[Stmt], out: &mut Vec<String>) {
    let mut declared: Vec<String> = vec![];
    fn target(e: &Expr) -> Option<String> {
        match e {
            Expr::Path(p) if p.path.segments.len() == 1 => Some(p.path.segments[0].ident.to_string()),
            Expr::Unary(u) if matches!(u.op, UnOp::Deref(_)) => target(&u.expr),
            Expr::Paren(p) => target(&p.expr),
            Expr::Field(f) => target(&f.base),
            _ => None,
        }
    }
    fn walk_expr(e: &Expr, out: &mut Vec<String>, declared: &mut Vec<String>) {
        match e {
            Expr::Assign(a) => {
                if let Some(t) = target(&a.left) {
                    if !declared.contains(&t) && !out.contains(&t) {
                        out.push(t);
                    }
                }
            }
            Expr::Binary(b) => {
                use BinOp::*;
                if matches!(
                    b.op,
                    AddAssign(_) | SubAssign(_) | MulAssign(_) | DivAssign(_) | RemAssign(_) | ShrAssign(_) | ShlAssign(_) | BitAndAssign(_) | BitOrAssign(_) | BitXorAssign(_)
                ) {
                    if let Some(t) = target(&b.left) {
                        if !declared.contains(&t) && !out.contains(&t) {
                            out.push(t);
                        }
                    }
                }
            }
            Expr::If(i) => {
                assigned(&i.then_branch.stmts, out);
                if let Some((_, e)) = &i.else_branch {
                    walk_expr(e, out, declared);
                }
            }
            Expr::Block(b) => assigned(&b.block.stmts, out),
            Expr::While(w) => assigned(&w.body.stmts, out),
            Expr::Loop(l) => assigned(&l.body.stmts, out),
            _ => {}
        }
    }
    for s in ss {
        match s {
            Stmt::Local(l) => {
                if let Pat::Ident(pi) = &l.pat {
                    declared.push(pi.ident.to_string());
                }
            }
            Stmt::Expr(e, _) => walk_expr(e, out, &mut declared),
            _ => {}
        }
    }
}

fn idents_in(ts: proc_macro2::TokenStream, out: &mut Vec<String>) {
    for t in ts {
        match t {
            proc_macro2::TokenTree::Ident(i) => out.push(i.to_string()),
            proc_macro2::TokenTree::Group(g) => idents_in(g.stream(), out),
            _ => {}
        }
    }
}

impl<'a> FnCx<'a> {
    pub fn new(cr: &'a Crate, module: &str, self_ty: Option<Ty>, ret: Ty, fn_name: String) -> Self {
        FnCx {
            cr,
            module: module.to_string(),
            self_ty,
            ret,
            fn_name,
            scopes: vec![HashMap::new()],
            local_consts: HashMap::new(),
            hoisted: vec![],
            mut_self: false,
            self_recursive: false,
            loop_count: 0,
            generics: vec!["T".into()],
        }
    }
    pub fn bind(&mut self, n: &str, t: Ty) {
        self.scopes.last_mut().unwrap().insert(n.to_string(), t);
    }
    fn lookup(&self, n: &str) -> Option<Ty> {
        self.scopes.iter().rev().find_map(|s| s.get(n).cloned())
    }
    fn all_locals(&self) -> Vec<(String, Ty)> {
        let mut v: Vec<(String, Ty)> = vec![];
        for s in &self.scopes {
            for (k, t) in s {
                if let Some(e) = v.iter_mut().find(|(n, _)| n == k) {
                    e.1 = t.clone();
                } else {
                    v.push((k.clone(), t.clone()));
                }
            }
        }
        v.sort_by(|a, b| a.0.cmp(&b.0));
        v
    }
    fn pty(&self, t: &Type) -> Ty {
        parse_ty(t, self.self_ty.as_ref(), &self.generics[..0])
    }

    pub fn fn_body(&mut self, b: &Block) -> R<L> {
        let tail = if self.mut_self { Tail::Vars(vec!["self".into()]) } else { Tail::Value(Some(self.ret.clone())) };
        let (l, _) = self.stmts(&b.stmts, &tail)?;
        Ok(l)
    }

    fn int_type_from_uses(&mut self, name: &str, rest: &[Stmt]) -> Option<Ty> {
        use syn::visit::Visit;
        let mut f = UseFinder { name, found: vec![] };
        for s in rest {
            f.visit_stmt(s);
        }
        for e in f.found {
            let saved = self.hoisted.len();
            let r = self.expr(&e, None);
            self.hoisted.truncate(saved);
            if let Ok((_, t)) = r {
                if t.is_int() {
                    return Some(t.erase());
                }
            }
        }
        None
    }

    fn vars_value(&self, vs: &[String]) -> R<(L, Ty)> {
        let mut ls = vec![];
        let mut ts = vec![];
        for v in vs {
            let t = self.lookup(v).ok_or(format!("unbound mutable variable {}", v))?;
            ls.push(L::var(&lean_ident(v)));
            ts.push(t.erase());
        }
        if ls.len() == 1 {
            Ok((ls.pop().unwrap(), ts.pop().unwrap()))
        } else {
            Ok((L::Tuple(ls), Ty::Tuple(ts)))
        }
    }
    fn vars_pat(vs: &[String]) -> String {
        if vs.len() == 1 {
            lean_ident(&vs[0])
        } else {
            format!("({})", vs.iter().map(|v| lean_ident(v)).collect::<Vec<_>>().join(", "))
        }
    }

    fn finish(&mut self, tail: &Tail) -> R<(L, Ty)> {
        match tail {
            Tail::Value(_) => Ok((L::raw("()"), Ty::Unit)),
            Tail::Vars(vs) => self.vars_value(vs),
            Tail::Call(name, caps, vars) => {
                let mut args = vec![L::var("fuel")];
                for c in caps.iter().chain(vars.iter()) {
                    args.push(L::var(&lean_ident(c)));
                }
                Ok((L::App(name.clone(), args), Ty::Unknown))
            }
        }
    }

    fn stmts(&mut self, ss: &[Stmt], tail: &Tail) -> R<(L, Ty)> {
        if ss.is_empty() {
            return self.finish(tail);
        }
        let (first, rest) = (&ss[0], &ss[1..]);
        match first {
            Stmt::Local(l) => {
                let init = l.init.as_ref().ok_or("let without initialiser")?;
                if init.diverge.is_some() {
                    return Err("let-else".into());
                }
                let (pat, ann): (&Pat, Option<Ty>) = match &l.pat {
                    Pat::Type(pt) => (&*pt.pat, Some(self.pty(&pt.ty))),
                    p => (p, None),
                };
                match pat {
                    Pat::Ident(pi) => {
                        let name = pi.ident.to_string();
                        // an unannotated binding of integer literals takes its type from its first typed use
                        let ann = if ann.is_none() && int_lit_valued(&init.expr) { self.int_type_from_uses(&name, rest) } else { ann };
                        let (v, t) = self.expr(&init.expr, ann.as_ref())?;
                        let t = ann.clone().unwrap_or(t);
                        self.bind(&name, t.clone());
                        let (body, bt) = self.stmts(rest, tail)?;
                        let annl = if ann.is_some() || t.is_int() { Some(t.lean()) } else { None };
                        Ok((L::Let(lean_ident(&name), annl, Box::new(v), Box::new(body)), bt))
                    }
                    Pat::Tuple(pt) => {
                        let names: Vec<String> = pt
                            .elems
                            .iter()
                            .map(|p| match p {
                                Pat::Ident(pi) => Ok(pi.ident.to_string()),
                                Pat::Wild(_) => Ok("_".to_string()),
                                _ => Err("nested tuple pattern in let".to_string()),
                            })
                            .collect::<R<Vec<_>>>()?;
                        // `let (a, b) = x.into();` — the only tuple conversion in the crate is TwoFloat -> (f64, f64)
                        let exp = match &init.expr.as_ref() {
                            Expr::MethodCall(mc) if mc.method == "into" && names.len() == 2 => Some(Ty::Tuple(vec![Ty::F64, Ty::F64])),
                            _ => None,
                        };
                        let (v, t) = self.expr(&init.expr, exp.as_ref())?;
                        let ts = match t.erase() {
                            Ty::Tuple(ts) if ts.len() == names.len() => ts,
                            o => return Err(format!("tuple pattern against {:?}", o)),
                        };
                        for (n, t) in names.iter().zip(ts) {
                            if n != "_" {
                                self.bind(n, t);
                            }
                        }
                        let (body, bt) = self.stmts(rest, tail)?;
                        let pat = format!("({})", names.iter().map(|n| lean_ident(n)).collect::<Vec<_>>().join(", "));
                        Ok((L::Let(pat, None, Box::new(v), Box::new(body)), bt))
                    }
                    _ => Err("unsupported let pattern".into()),
                }
            }
            Stmt::Item(Item::Const(c)) => {
                let name = c.ident.to_string();
                let ty = self.pty(&c.ty);
                let lean = format!("{}.{}", self.fn_name, name);
                let (v, _) = self.expr(&c.expr, Some(&ty))?;
                self.hoisted.push(Def {
                    name: lean.clone(),
                    params: vec![],
                    ret: ty.lean(),
                    body: v,
                    is_const: true,
                    fuel_rec: None,
                    module: self.module.clone(),
                    generic_header: String::new(),
                    info: None,
                    src_order: 0,
                    instance: None,
                });
                self.local_consts.insert(name, (lean, ty));
                self.stmts(rest, tail)
            }
            Stmt::Item(_) => self.stmts(rest, tail),
            Stmt::Macro(m) => {
                if stmt_is_panic(first) {
                    Ok((L::Panic, Ty::Unknown))
                } else {
                    Err(format!("macro statement {}", last_seg(&m.mac.path)))
                }
            }
            Stmt::Expr(e, semi) => {
                if rest.is_empty() && semi.is_none() && !matches!(e, Expr::Loop(_) | Expr::While(_)) {
                    if let Tail::Value(exp) = tail {
                        return self.expr(e, exp.as_ref());
                    }
                }
                self.stmt_expr(e, rest, tail)
            }
        }
    }

    /// an expression in statement position, followed by `rest`
    fn stmt_expr(&mut self, e: &Expr, rest: &[Stmt], tail: &Tail) -> R<(L, Ty)> {
        match e {
            Expr::Return(r) => {
                let ret = self.ret.clone();
                match &r.expr {
                    Some(x) => self.expr(x, Some(&ret)),
                    None if self.mut_self => self.vars_value(&["self".to_string()]),
                    None => Ok((L::raw("()"), Ty::Unit)),
                }
            }
            _ if is_panic_call(e) => Ok((L::Panic, Ty::Unknown)),
            // field assignment on a TwoFloat variable: `x.hi = e`, `x.lo op= e`
            Expr::Assign(a) if matches!(&*a.left, Expr::Field(_)) => {
                let (name, field) = self.field_target(&a.left)?;
                let (v, _) = self.expr(&a.right, Some(&Ty::F64))?;
                let (body, bt) = self.stmts(rest, tail)?;
                let upd = L::raw(format!("{{ {} with {} := {} }}", lean_ident(&name), field, v.inl0()));
                Ok((L::Let(lean_ident(&name), None, Box::new(upd), Box::new(body)), bt))
            }
            Expr::Binary(b) if compound_op(&b.op).is_some() && matches!(&*b.left, Expr::Field(_)) => {
                let (op, _, _) = compound_op(&b.op).unwrap();
                let (name, field) = self.field_target(&b.left)?;
                let (r, rt) = self.expr(&b.right, Some(&Ty::F64))?;
                let cur = L::Field(Box::new(L::var(&lean_ident(&name))), field.clone());
                let v = self.prim_bin(op, cur, &Ty::F64, r, &rt)?.0;
                let (body, bt) = self.stmts(rest, tail)?;
                let upd = L::raw(format!("{{ {} with {} := {} }}", lean_ident(&name), field, v.inl0()));
                Ok((L::Let(lean_ident(&name), None, Box::new(upd), Box::new(body)), bt))
            }
            Expr::Assign(a) => {
                let name = self.assign_target(&a.left)?;
                let cur = self.lookup(&name).ok_or(format!("assignment to unbound {}", name))?;
                let (v, _) = self.expr(&a.right, Some(&cur.erase()))?;
                let (body, bt) = self.stmts(rest, tail)?;
                Ok((L::Let(lean_ident(&name), None, Box::new(v), Box::new(body)), bt))
            }
            Expr::Binary(b) if compound_op(&b.op).is_some() => {
                let (op, tr, m) = compound_op(&b.op).unwrap();
                let name = self.assign_target(&b.left)?;
                let cur = self.lookup(&name).ok_or(format!("assignment to unbound {}", name))?;
                let v = if cur.erase().is_prim_num() {
                    let (r, rt) = self.expr(&b.right, Some(&cur.erase()))?;
                    self.prim_bin(op, L::var(&lean_ident(&name)), &cur.erase(), r, &rt)?.0
                } else {
                    let (r, rt) = self.expr(&b.right, None)?;
                    let f = self
                        .cr
                        .op_impl(tr, &cur.erase(), Some(&rt), m)
                        .ok_or(format!("no impl {}<{}> for {}", tr, rt, cur))?;
                    L::App(f.lean.clone(), vec![L::var(&lean_ident(&name)), r])
                };
                let (body, bt) = self.stmts(rest, tail)?;
                Ok((L::Let(lean_ident(&name), None, Box::new(v), Box::new(body)), bt))
            }
            Expr::If(i) => {
                // assert!(c) expands to `if !c { panic }`
                if i.else_branch.is_none() && i.then_branch.stmts.len() == 1 && stmt_is_panic(&i.then_branch.stmts[0]) {
                    if let Expr::Unary(u) = &*i.cond {
                        if matches!(u.op, UnOp::Not(_)) {
                            let (c, _) = self.expr(&u.expr, Some(&Ty::Bool))?;
                            let (body, bt) = self.stmts(rest, tail)?;
                            return Ok((L::Assert(Box::new(c), Box::new(body)), bt));
                        }
                    }
                    let (c, _) = self.expr(&i.cond, Some(&Ty::Bool))?;
                    let (body, bt) = self.stmts(rest, tail)?;
                    return Ok((L::Assert(Box::new(L::Not(Box::new(c))), Box::new(body)), bt));
                }
                // early return: `if c { ...; return x; } rest`
                if block_ends_with_return(&i.then_branch) {
                    let (c, _) = self.expr(&i.cond, Some(&Ty::Bool))?;
                    self.scopes.push(HashMap::new());
                    let then = self.stmts(&i.then_branch.stmts, tail);
                    self.scopes.pop();
                    let (then, _) = then?;
                    let (els, et) = match &i.else_branch {
                        None => self.stmts(rest, tail)?,
                        Some((_, eb)) => {
                            // statements of the else block run, then the rest
                            let mut all: Vec<Stmt> = match &**eb {
                                Expr::Block(b) => b.block.stmts.clone(),
                                other => vec![Stmt::Expr(other.clone(), Some(Default::default()))],
                            };
                            all.extend(rest.iter().cloned());
                            self.stmts(&all, tail)?
                        }
                    };
                    return Ok((L::If(Box::new(c), Box::new(then), Box::new(els)), et));
                }
                // tail position of a loop body / mutating block: branch on the same tail
                if rest.is_empty() && !matches!(tail, Tail::Value(_)) {
                    let (c, _) = self.expr(&i.cond, Some(&Ty::Bool))?;
                    self.scopes.push(HashMap::new());
                    let then = self.stmts(&i.then_branch.stmts, tail);
                    self.scopes.pop();
                    let (then, tt) = then?;
                    let (els, _) = match &i.else_branch {
                        None => self.finish(tail)?,
                        Some((_, eb)) => match &**eb {
                            Expr::Block(b) => {
                                self.scopes.push(HashMap::new());
                                let r = self.stmts(&b.block.stmts, tail);
                                self.scopes.pop();
                                r?
                            }
                            other => self.stmt_expr(other, &[], tail)?,
                        },
                    };
                    return Ok((L::If(Box::new(c), Box::new(then), Box::new(els)), tt));
                }
                // mutation inside the branches
                let mut vars = vec![];
                assigned(&i.then_branch.stmts, &mut vars);
                if let Some((_, eb)) = &i.else_branch {
                    assigned(&[Stmt::Expr((**eb).clone(), None)], &mut vars);
                }
                if vars.is_empty() {
                    return Err("if statement without effect".into());
                }
                let vt = Tail::Vars(vars.clone());
                let (c, _) = self.expr(&i.cond, Some(&Ty::Bool))?;
                self.scopes.push(HashMap::new());
                let then = self.stmts(&i.then_branch.stmts, &vt);
                self.scopes.pop();
                let (then, _) = then?;
                let (els, _) = match &i.else_branch {
                    None => self.vars_value(&vars)?,
                    Some((_, eb)) => match &**eb {
                        Expr::Block(b) => {
                            self.scopes.push(HashMap::new());
                            let r = self.stmts(&b.block.stmts, &vt);
                            self.scopes.pop();
                            r?
                        }
                        other => self.stmt_expr(other, &[], &vt)?,
                    },
                };
                let (body, bt) = self.stmts(rest, tail)?;
                Ok((
                    L::Let(Self::vars_pat(&vars), None, Box::new(L::If(Box::new(c), Box::new(then), Box::new(els))), Box::new(body)),
                    bt,
                ))
            }
            Expr::While(w) => {
                let mut vars = vec![];
                assigned(&w.body.stmts, &mut vars);
                let (name, caps) = self.loop_def_header(e, &vars);
                let call_tail = Tail::Call(name.clone(), caps.clone(), vars.clone());
                let (c, _) = self.expr(&w.cond, Some(&Ty::Bool))?;
                self.scopes.push(HashMap::new());
                let body = self.stmts(&w.body.stmts, &call_tail);
                self.scopes.pop();
                let (body, _) = body?;
                let (exit, vty) = self.vars_value(&vars)?;
                self.push_loop_def(&name, &caps, &vars, vty.lean(), L::If(Box::new(c), Box::new(body), Box::new(exit.clone())), exit);
                let mut args = vec![L::raw(format!("{}", loop_fuel(&self.fn_name)))];
                for c in caps.iter().chain(vars.iter()) {
                    args.push(L::var(&lean_ident(c)));
                }
                let (k, kt) = self.stmts(rest, tail)?;
                Ok((L::Let(Self::vars_pat(&vars), None, Box::new(L::App(name, args)), Box::new(k)), kt))
            }
            Expr::Loop(lp) if !rest.is_empty() => {
                // `loop { if c { break; } body }` with no other break is `while !c { body }`
                let stmts = &lp.body.stmts;
                let head = match stmts.first() {
                    Some(Stmt::Expr(Expr::If(i), _)) if i.else_branch.is_none() && is_lone_break(&i.then_branch) => Some(i),
                    _ => None,
                };
                let i = head.ok_or("loop not in tail position")?;
                let body_rest: Vec<Stmt> = stmts[1..].to_vec();
                let mut toks = proc_macro2::TokenStream::new();
                for st in &body_rest {
                    toks.extend(quote::quote!(#st));
                }
                if format!("{}", toks).split(|c: char| !c.is_alphanumeric() && c != '_').any(|w| w == "break" || w == "continue") {
                    return Err("loop with several exits not in tail position".into());
                }
                let c = &i.cond;
                let w: Expr = syn::parse_quote!(while !(#c) { #(#body_rest)* });
                self.stmt_expr(&w, rest, tail)
            }
            Expr::Loop(lp) => {
                let mut vars = vec![];
                assigned(&lp.body.stmts, &mut vars);
                let (name, caps) = self.loop_def_header(e, &vars);
                let call_tail = Tail::Call(name.clone(), caps.clone(), vars.clone());
                self.scopes.push(HashMap::new());
                let body = self.stmts(&lp.body.stmts, &call_tail);
                self.scopes.pop();
                let (body, _) = body?;
                let ret = self.ret.clone();
                self.push_loop_def(&name, &caps, &vars, ret.lean(), body, L::raw("default"));
                let mut args = vec![L::raw(format!("{}", loop_fuel(&self.fn_name)))];
                for c in caps.iter().chain(vars.iter()) {
                    args.push(L::var(&lean_ident(c)));
                }
                Ok((L::App(name, args), ret))
            }
            Expr::Block(b) => {
                let mut all = b.block.stmts.clone();
                all.extend(rest.iter().cloned());
                self.stmts(&all, tail)
            }
            Expr::MethodCall(mc) => {
                // `x.op_assign(rhs);` on a `&mut self` method rebinds x
                let name = self.assign_target(&mc.receiver)?;
                let (v, _) = self.method(mc, None)?;
                let is_mut = match &v {
                    L::App(f, _) => self.cr.impls.iter().any(|i| i.methods.values().any(|m| &m.lean == f && m.mut_self)),
                    _ => false,
                };
                if !is_mut {
                    return Err(format!("method call statement without effect: {}", quote::quote!(#e)));
                }
                let (body, bt) = self.stmts(rest, tail)?;
                Ok((L::Let(lean_ident(&name), None, Box::new(v), Box::new(body)), bt))
            }
            _ => Err(format!("unsupported statement: {}", quote::quote!(#e))),
        }
    }

    fn loop_def_header(&mut self, e: &Expr, vars: &[String]) -> (String, Vec<String>) {
        self.loop_count += 1;
        let name = format!("{}.loop{}", self.fn_name, self.loop_count);
        let mut ids = vec![];
        idents_in(quote::quote!(#e), &mut ids);
        let caps: Vec<String> =
            self.all_locals().into_iter().map(|(n, _)| n).filter(|n| ids.contains(n) && !vars.contains(n)).collect();
        (name, caps)
    }

    fn push_loop_def(&mut self, name: &str, caps: &[String], vars: &[String], ret: String, body: L, exhausted: L) {
        let mut params = vec![];
        for c in caps.iter().chain(vars.iter()) {
            let t = self.lookup(c).unwrap_or(Ty::Unknown);
            params.push((lean_ident(c), t.lean()));
        }
        self.hoisted.push(Def {
            name: name.to_string(),
            params,
            ret,
            body,
            is_const: false,
            fuel_rec: Some(exhausted),
            module: self.module.clone(),
            generic_header: String::new(),
            info: None,
            src_order: 0,
            instance: None,
        });
    }

    fn field_target(&self, e: &Expr) -> R<(String, String)> {
        match e {
            Expr::Field(f) => {
                let name = self.assign_target(&f.base)?;
                let t = self.lookup(&name).ok_or(format!("assignment to unbound {}", name))?;
                if t.erase() != Ty::TF {
                    return Err("field assignment on non-TwoFloat".into());
                }
                match &f.member {
                    Member::Named(n) => Ok((name, n.to_string())),
                    _ => Err("tuple field assignment".into()),
                }
            }
            _ => Err("not a field".into()),
        }
    }

    fn assign_target(&self, e: &Expr) -> R<String> {
        match e {
            Expr::Path(p) if p.path.segments.len() == 1 => Ok(p.path.segments[0].ident.to_string()),
            Expr::Unary(u) if matches!(u.op, UnOp::Deref(_)) => self.assign_target(&u.expr),
            Expr::Paren(p) => self.assign_target(&p.expr),
            _ => Err(format!("unsupported assignment target {}", quote::quote!(#e))),
        }
    }

    // ------------------------------------------------------------------ expressions

    fn prim_bin(&self, op: &str, l: L, lt: &Ty, r: L, rt: &Ty) -> R<(L, Ty)> {
        let lt = lt.erase();
        let node = |o: &str| L::Bin(o.to_string(), Box::new(l.clone()), Box::new(r.clone()));
        let is_int = lt.is_int();
        Ok(match op {
            "+" | "-" | "*" => {
                let n = node(match op {
                    "+" => "+.",
                    "-" => "-.",
                    _ => "*.",
                });
                (if is_int { L::RangeChk(Box::new(n)) } else { n }, lt)
            }
            "/" | "%" => {
                let n = node(if op == "/" { "/." } else { "%." });
                if is_int {
                    // division by zero (and MIN / -1) panic
                    let nz = L::Bin("!=.".into(), Box::new(r.clone()), Box::new(int_lit(0, &lt)));
                    (L::Chk(Box::new(nz), Box::new(L::RangeChk(Box::new(n)))), lt)
                } else {
                    (n, lt)
                }
            }
            "&" => (node("&&&"), lt),
            "|" => (node("|||"), lt),
            "^" => (node("^^^"), lt),
            "<<" | ">>" => {
                let bits = match lt {
                    Ty::Int(_, b, _) => b,
                    _ => return Err("shift of non-integer".into()),
                };
                let n = node(if op == "<<" { "<<<" } else { ">>>" });
                // a literal shift amount inside the width needs no run-time check
                if let L::Raw(txt) = &r {
                    if let Some(v) = txt.trim_start_matches('(').split(' ').next().and_then(|s| s.parse::<i128>().ok()) {
                        if v >= 0 && v < bits as i128 {
                            return Ok((n, lt));
                        }
                    }
                }
                let ok = L::Bin(
                    "&&".into(),
                    Box::new(L::Bin("<=.".into(), Box::new(int_lit(0, &rt.erase())), Box::new(r.clone()))),
                    Box::new(L::Bin("<.".into(), Box::new(r.clone()), Box::new(int_lit(bits as i128, &rt.erase())))),
                );
                (L::Chk(Box::new(ok), Box::new(n)), lt)
            }
            "==" => (node("==."), Ty::Bool),
            "!=" => (node("!=."), Ty::Bool),
            "<" => (node("<."), Ty::Bool),
            "<=" => (node("<=."), Ty::Bool),
            ">" => (node(">."), Ty::Bool),
            ">=" => (node(">=."), Ty::Bool),
            o => return Err(format!("primitive operator {}", o)),
        })
    }

    fn closure(&mut self, c: &ExprClosure, ptys: &[Ty]) -> R<(L, Ty)> {
        self.scopes.push(HashMap::new());
        let mut names = vec![];
        for (p, t) in c.inputs.iter().zip(ptys) {
            let n = match p {
                Pat::Ident(pi) => pi.ident.to_string(),
                Pat::Type(pt) => match &*pt.pat {
                    Pat::Ident(pi) => pi.ident.to_string(),
                    _ => "_".into(),
                },
                _ => "_".into(),
            };
            self.bind(&n, t.clone());
            names.push(lean_ident(&n));
        }
        let r = self.expr(&c.body, None);
        self.scopes.pop();
        let (b, t) = r?;
        Ok((L::Lam(names, Box::new(b)), t))
    }

    /// `{ let mut iter = T.iter().rev(); let init = iter.next().unwrap(); iter.fold(*init, |a, n| ..) }`
    fn try_poly_block(&mut self, b: &Block) -> R<Option<(L, Ty)>> {
        if b.stmts.len() != 3 {
            return Ok(None);
        }
        let table = match &b.stmts[0] {
            Stmt::Local(l) => match l.init.as_ref().map(|i| &*i.expr) {
                Some(Expr::MethodCall(rev)) if rev.method == "rev" => match &*rev.receiver {
                    Expr::MethodCall(it) if it.method == "iter" => &*it.receiver,
                    _ => return Ok(None),
                },
                _ => return Ok(None),
            },
            _ => return Ok(None),
        };
        let fold = match &b.stmts[2] {
            Stmt::Expr(Expr::MethodCall(f), None) if f.method == "fold" && f.args.len() == 2 => f,
            _ => return Ok(None),
        };
        let clos = match &fold.args[1] {
            Expr::Closure(c) => c,
            _ => return Ok(None),
        };
        let (t, tt) = self.expr(table, None)?;
        let elem = match tt.erase() {
            Ty::Arr(e, _) => *e,
            o => return Err(format!("polynomial table type {:?}", o)),
        };
        let (lam, _) = self.closure(clos, &[elem.clone(), Ty::Ref(Box::new(elem.clone()))])?;
        Ok(Some((L::App("polyFold".into(), vec![t, lam]), elem)))
    }

    fn from_impl(&self, src: &Ty, dst: &Ty) -> Option<&'a FnInfo> {
        let find = |exact: bool| {
            self.cr.impls.iter().find(|i| {
                i.trait_.as_deref() == Some("From")
                    && !i.generic
                    && i.self_ty.erase() == dst.erase()
                    && i.trait_args.first().map_or(false, |a| if exact { a == src } else { a.erase() == src.erase() })
            })
        };
        find(true).or_else(|| find(false)).and_then(|i| i.methods.get("from"))
    }

    fn path_value(&mut self, p: &ExprPath, exp: Option<&Ty>) -> R<(L, Ty)> {
        let segs = path_strs(&p.path);
        if p.qself.is_some() {
            // <Self>::add as a function value
            if segs.len() == 1 && segs[0] == "add" {
                return Ok((L::raw("(fun a b => a +. b)"), Ty::Unknown));
            }
            return Err("qualified path".into());
        }
        if segs.len() == 1 {
            let n = &segs[0];
            if let Some(t) = self.lookup(n) {
                return Ok((L::var(&lean_ident(n)), t));
            }
            if let Some((l, t)) = self.local_consts.get(n) {
                return Ok((L::App(l.clone(), vec![]), t.clone()));
            }
            if let Some((l, t)) = self.cr.mod_consts.get(&(self.module.clone(), n.clone())) {
                return Ok((L::App(l.clone(), vec![]), t.clone()));
            }
            if let Some(full) = self.cr.resolve_use(&self.module, n) {
                let m = full[full.len() - 2].clone();
                if let Some((l, t)) = self.cr.mod_consts.get(&(m, n.clone())) {
                    return Ok((L::App(l.clone(), vec![]), t.clone()));
                }
            }
            if n == "None" {
                return Ok((L::raw("none"), exp.cloned().unwrap_or(Ty::Opt(Box::new(Ty::Unknown)))));
            }
            return Err(format!("unresolved name {}", n));
        }
        let (head, last) = (segs[segs.len() - 2].as_str(), segs[segs.len() - 1].as_str());
        match head {
            "f64" => {
                return match last {
                    "INFINITY" | "NEG_INFINITY" | "NAN" | "MAX" | "MIN" | "MIN_POSITIVE" | "EPSILON" => {
                        Ok((L::raw(format!("F64.{}", last)), Ty::F64))
                    }
                    "MANTISSA_DIGITS" => Ok((int_lit(53, &int_ty("u32").unwrap()), int_ty("u32").unwrap())),
                    "RADIX" => Ok((int_lit(2, &int_ty("u32").unwrap()), int_ty("u32").unwrap())),
                    "DIGITS" => Ok((int_lit(15, &int_ty("u32").unwrap()), int_ty("u32").unwrap())),
                    "MAX_EXP" => Ok((int_lit(1024, &int_ty("i32").unwrap()), int_ty("i32").unwrap())),
                    "MIN_EXP" => Ok((int_lit(-1021, &int_ty("i32").unwrap()), int_ty("i32").unwrap())),
                    _ => Err(format!("f64::{}", last)),
                }
            }
            "TwoFloat" | "Self" if !(head == "Self" && self.self_ty.as_ref().map(|t| t.erase()) != Some(Ty::TF)) => {
                if let Some((l, t)) = self.cr.inherent_const(&Ty::TF, last) {
                    return Ok((L::App(l.clone(), vec![]), t.clone()));
                }
                return Err(format!("TwoFloat::{}", last));
            }
            "FpCategory" => return Ok((L::raw(format!("FpCategory.{}", last)), Ty::Named("FpCategory".into()))),
            "Ordering" => return Ok((L::raw(format!("ROrdering.{}", last)), Ty::Named("Ordering".into()))),
            "TwoFloatError" | "Error" => return Ok((L::raw(format!("TwoFloatError.{}", last)), Ty::Named("TwoFloatError".into()))),
            _ => {}
        }
        if let Some(t) = int_ty(head) {
            return match last {
                "BITS" => {
                    let b = match t { Ty::Int(_, b, _) => b, _ => 0 };
                    Ok((int_lit(b as i128, &int_ty("u32").unwrap()), int_ty("u32").unwrap()))
                }
                "MAX" | "MIN" => Ok((L::raw(format!("(IntN.{} : {})", last, t.lean())), t)),
                _ => Err(format!("{}::{}", head, last)),
            };
        }
        // module-qualified constant: consts::PI, crate::consts::LN_2
        if let Some((l, t)) = self.cr.mod_consts.get(&(head.to_string(), last.to_string())) {
            return Ok((L::App(l.clone(), vec![]), t.clone()));
        }
        Err(format!("unresolved path {}", segs.join("::")))
    }

    fn call_fn(&mut self, f: &FnInfo, recv: Option<(L, Ty)>, args: &[&Expr]) -> R<(L, Ty)> {
        let mut ls = vec![];
        let mut pi = f.params.iter();
        if let Some((l, _)) = recv {
            pi.next();
            ls.push(l);
        }
        let ps: Vec<&(String, Ty)> = pi.collect();
        if ps.len() != args.len() {
            return Err(format!("arity mismatch calling {}", f.lean));
        }
        for ((_, pt), a) in ps.iter().zip(args) {
            let (l, _) = self.expr(a, Some(&pt.erase()))?;
            ls.push(l);
        }
        if f.lean == self.fn_name {
            self.self_recursive = true;
            let mut a2 = vec![L::var("fuel")];
            a2.extend(ls);
            return Ok((L::App(format!("{}.go", f.lean), a2), f.ret.clone()));
        }
        let ret = if f.mut_self { Ty::TF } else { f.ret.clone() };
        Ok((L::App(f.lean.clone(), ls), ret))
    }

    fn libm_call(&mut self, name: &str, args: &[&Expr]) -> R<(L, Ty)> {
        let (lean, ret) = match name {
            "fabs" => ("F64.abs", Ty::F64),
            "copysign" => ("F64.copysign", Ty::F64),
            "floor" => ("F64.floor", Ty::F64),
            "ceil" => ("F64.ceil", Ty::F64),
            "trunc" => ("F64.trunc", Ty::F64),
            "round" => ("F64.round", Ty::F64),
            "modf" => ("F64.modf", Ty::Tuple(vec![Ty::F64, Ty::F64])),
            "fma" => ("F64.fma", Ty::F64),
            "sqrt" => ("F64.sqrt", Ty::F64),
            "cbrt" => ("F64.cbrt", Ty::F64),
            "exp2" => ("F64.exp2", Ty::F64),
            "log" => ("Libm.log", Ty::F64),
            "log1p" => ("Libm.log1p", Ty::F64),
            "log2" => ("Libm.log2", Ty::F64),
            o => return Err(format!("libm::{}", o)),
        };
        let mut ls = vec![];
        for a in args {
            ls.push(self.expr(a, Some(&Ty::F64))?.0);
        }
        Ok((L::App(lean.into(), ls), ret))
    }

    fn call(&mut self, c: &ExprCall, exp: Option<&Ty>) -> R<(L, Ty)> {
        let args: Vec<&Expr> = c.args.iter().collect();
        let p = match &*c.func {
            Expr::Path(p) => p,
            _ => return Err("call of non-path".into()),
        };
        let segs = path_strs(&p.path);
        let last = segs.last().unwrap().as_str();
        if segs.len() == 1 {
            match last {
                "Some" => {
                    let inner = match exp.map(|t| t.erase()) {
                        Some(Ty::Opt(t)) => Some(*t),
                        _ => None,
                    };
                    let (l, t) = self.expr(args[0], inner.as_ref())?;
                    return Ok((L::App("some".into(), vec![l]), Ty::Opt(Box::new(t.erase()))));
                }
                "Ok" => {
                    let inner = match exp.map(|t| t.erase()) {
                        Some(Ty::Res(t)) => Some(*t),
                        _ => None,
                    };
                    let (l, t) = self.expr(args[0], inner.as_ref())?;
                    return Ok((L::App("Except.ok".into(), vec![l]), Ty::Res(Box::new(inner.unwrap_or(t.erase())))));
                }
                "Err" => {
                    let (l, _) = self.expr(args[0], None)?;
                    return Ok((L::App("Except.error".into(), vec![l]), exp.cloned().unwrap_or(Ty::Res(Box::new(Ty::Unknown)))));
                }
                _ => {}
            }
            // free function in this module or imported
            let key = (self.module.clone(), last.to_string());
            let f = self.cr.free_fns.get(&key).cloned().or_else(|| {
                self.cr.resolve_use(&self.module, last).and_then(|full| {
                    let m = full[full.len() - 2].clone();
                    self.cr.free_fns.get(&(m, last.to_string())).cloned()
                })
            });
            if let Some(f) = f {
                return self.call_fn(&f, None, &args);
            }
            return Err(format!("unresolved function {}", last));
        }
        let head = segs[segs.len() - 2].as_str();
        if segs.iter().any(|s| s == "libm") {
            return self.libm_call(last, &args);
        }
        if last == "default" && (head == "Default") {
            return match exp.map(|t| t.erase()) {
                Some(Ty::F64) => Ok((f64_bits_lit(0.0), Ty::F64)),
                o => Err(format!("Default::default at {:?}", o)),
            };
        }
        if last == "size_of" {
            return Ok((int_lit(8, &int_ty("usize").unwrap()), int_ty("usize").unwrap()));
        }
        let head_ty: Option<Ty> = match head {
            "TwoFloat" => Some(Ty::TF),
            "Self" => self.self_ty.as_ref().map(|t| t.erase()),
            "f64" => Some(Ty::F64),
            "f32" => Some(Ty::F32),
            h => int_ty(h),
        };
        if let Some(ht) = head_ty {
            // conversions
            if last == "from" && args.len() == 1 {
                let (a, at) = self.expr(args[0], None)?;
                if at.erase() == ht {
                    return Ok((a, ht));
                }
                if let Some(f) = self.from_impl(&at, &ht) {
                    return Ok((L::App(f.lean.clone(), vec![a]), ht));
                }
                if ht == Ty::F64 && at.erase().is_prim_num() {
                    return Ok((L::Ann(Box::new(L::App("RFrom.from".into(), vec![a])), "F64".into()), Ty::F64));
                }
                return Err(format!("no From<{}> for {}", at, ht));
            }
            if last == "try_from" && args.len() == 1 {
                let (a, at) = self.expr(args[0], None)?;
                let f = self
                    .cr
                    .trait_method(Some("TryFrom"), &ht, "try_from", &[at.clone()])
                    .ok_or(format!("no TryFrom<{}> for {}", at, ht))?;
                return Ok((L::App(f.lean.clone(), vec![a]), f.ret.clone()));
            }
            if ht == Ty::F64 {
                match last {
                    "from_bits" => {
                        let (a, _) = self.expr(args[0], Some(&int_ty("u64").unwrap()))?;
                        return Ok((L::App("F64.from_bits".into(), vec![a]), Ty::F64));
                    }
                    "mul_add" => {
                        let mut ls = vec![];
                        for a in &args {
                            ls.push(self.expr(a, Some(&Ty::F64))?.0);
                        }
                        return Ok((L::App("F64.fma".into(), ls), Ty::F64));
                    }
                    _ => {}
                }
            }
            if ht == Ty::TF || self.cr.inherent_method(&ht, last).is_some() {
                if let Some(f) = self.cr.inherent_method(&ht, last).cloned() {
                    return self.call_fn(&f, None, &args);
                }
                // trait method called through the type: TwoFloat::zero(), TwoFloat::default()
                let mut ats = vec![];
                for a in &args {
                    ats.push(self.expr(a, None)?.1);
                }
                let (self_t, rest_t): (Ty, Vec<Ty>) = if ats.is_empty() { (ht.clone(), vec![]) } else { (ats[0].clone(), ats[1..].to_vec()) };
                if last == "default" {
                    return Ok((L::raw("({ hi := (f64lit 0x0000000000000000), lo := (f64lit 0x0000000000000000) } : TwoFloat)"), Ty::TF));
                }
                // static trait fn (no receiver): search by name and Self type
                let cand = self
                    .cr
                    .impls
                    .iter()
                    .filter(|i| i.trait_.is_some() && !i.generic && i.self_ty.erase() == ht)
                    .find_map(|i| i.methods.get(last).filter(|m| m.params.len() == args.len()));
                if let Some(f) = cand.cloned() {
                    let _ = (self_t, rest_t);
                    return self.call_fn(&f, None, &args);
                }
                return Err(format!("unresolved {}::{}", head, last));
            }
        }
        // trait-qualified calls: Pow::pow(x, n), Inv::inv(x) ...
        Err(format!("unresolved call {}", segs.join("::")))
    }

    fn prim_method(&mut self, recv: L, rt: &Ty, m: &str, args: &[&Expr], exp: Option<&Ty>) -> R<Option<(L, Ty)>> {
        let e = rt.erase();
        Ok(match (&e, m) {
            (Ty::F64, "is_nan" | "is_finite" | "is_infinite" | "is_normal" | "is_sign_positive" | "is_sign_negative") => {
                Some((L::App(format!("F64.{}", m), vec![recv]), Ty::Bool))
            }
            (Ty::F64, "abs" | "recip" | "sqrt") => Some((L::App(format!("F64.{}", m), vec![recv]), Ty::F64)),
            (Ty::F64, "classify") => Some((L::App("F64.classify".into(), vec![recv]), Ty::Named("FpCategory".into()))),
            (Ty::F64, "to_bits") => Some((L::App("F64.to_bits".into(), vec![recv]), int_ty("u64").unwrap())),
            (Ty::F64, "mul_add") => {
                let a = self.expr(args[0], Some(&Ty::F64))?.0;
                let b = self.expr(args[1], Some(&Ty::F64))?.0;
                Some((L::App("F64.fma".into(), vec![recv, a, b]), Ty::F64))
            }
            (Ty::F64, "max" | "min") => {
                let a = self.expr(args[0], Some(&Ty::F64))?.0;
                Some((L::App(format!("F64.{}", m), vec![recv, a]), Ty::F64))
            }
            (Ty::F64 | Ty::Int(..), "partial_cmp") => {
                let (a, at) = self.expr(args[0], Some(&e))?;
                if at.erase() != e {
                    return Ok(None);
                }
                Some((L::App("RPartialOrd.partial_cmp".into(), vec![recv, a]), Ty::Opt(Box::new(Ty::Named("Ordering".into())))))
            }
            (Ty::F64 | Ty::Int(..) | Ty::Bool, "eq" | "ne") => {
                let (a, at) = self.expr(args[0], Some(&e))?;
                if at.erase() != e {
                    return Ok(None);
                }
                Some((L::Bin(if m == "eq" { "==." } else { "!=." }.into(), Box::new(recv), Box::new(a)), Ty::Bool))
            }
            (Ty::Int(..), "abs") => Some((L::RangeChk(Box::new(L::App("IntN.abs".into(), vec![recv]))), e.clone())),
            (Ty::Int(_, b, _), "unsigned_abs") => {
                let u = crate::ty::INTS.iter().find(|(_, s, bb)| !*s && bb == b).unwrap();
                Some((L::App("IntN.unsigned_abs".into(), vec![recv]), Ty::Int(false, *b, u.0)))
            }
            (Ty::Int(..), "is_negative" | "is_positive") => Some((L::App(format!("IntN.{}", m), vec![recv]), Ty::Bool)),
            (Ty::Res(inner), "ok") => Some((L::App("Except.toOption".into(), vec![recv]), Ty::Opt(inner.clone()))),
            (Ty::Opt(inner), "map") => {
                if let Expr::Closure(c) = args[0] {
                    let (lam, bt) = self.closure(c, &[(**inner).clone()])?;
                    Some((L::App("Option.map".into(), vec![lam, recv]), Ty::Opt(Box::new(bt.erase()))))
                } else {
                    None
                }
            }
            (_, "into") => {
                let dst = exp.ok_or("`.into()` without a known target type")?.erase();
                if e == dst {
                    return Ok(Some((recv, dst)));
                }
                if let Some(f) = self.from_impl(rt, &dst) {
                    Some((L::App(f.lean.clone(), vec![recv]), dst))
                } else if dst == Ty::F64 && e.is_prim_num() {
                    Some((L::Ann(Box::new(L::App("RFrom.from".into(), vec![recv])), "F64".into()), Ty::F64))
                } else {
                    return Err(format!("no From<{}> for {}", rt, dst));
                }
            }
            (Ty::Arr(..), "iter" | "rev") => Some((recv, rt.clone())),
            (Ty::Arr(el, _), "fold") => {
                // iter.fold(init, f)  ->  List.foldl f init iter
                let (init, it) = self.expr(args[0], exp)?;
                let f = match args[1] {
                    Expr::Closure(c) => self.closure(c, &[it.clone(), (**el).clone()])?.0,
                    other => self.expr(other, None)?.0,
                };
                Some((L::App("List.foldl".into(), vec![f, init, recv]), it))
            }
            _ => None,
        })
    }

    fn method(&mut self, mc: &ExprMethodCall, exp: Option<&Ty>) -> R<(L, Ty)> {
        let m = mc.method.to_string();
        let args: Vec<&Expr> = mc.args.iter().collect();
        // (a..=b).contains(&x)
        if m == "contains" {
            if let Expr::Paren(p) = &*mc.receiver {
                if let Expr::Range(r) = &*p.expr {
                    if matches!(r.limits, RangeLimits::Closed(_)) {
                        let (lo, lot) = self.expr(r.start.as_ref().ok_or("open range")?, None)?;
                        let (hi, hit) = self.expr(r.end.as_ref().ok_or("open range")?, None)?;
                        let (x, xt) = self.expr(args[0], None)?;
                        let (c1, _) = self.compare("<=", lo, &lot, x.clone(), &xt)?;
                        let (c2, _) = self.compare("<=", x, &xt, hi, &hit)?;
                        return Ok((L::Bin("&&".into(), Box::new(c1), Box::new(c2)), Ty::Bool));
                    }
                }
            }
            return Err("contains on non-range".into());
        }
        let recv_exp = if m == "into" || m == "fold" { None } else { None };
        // integer literal receivers default to i32 (`1.into()`)
        let (recv, rt) = self.expr(&mc.receiver, recv_exp)?;
        let e = rt.erase();
        // inherent methods of TwoFloat
        if e == Ty::TF {
            if let Some(f) = self.cr.inherent_method(&e, &m).cloned() {
                return self.call_fn(&f, Some((recv, rt)), &args);
            }
        }
        // trait impls of this crate with matching receiver/argument types
        if m != "into" {
            let mut ats = vec![];
            let mut ok = true;
            for a in &args {
                if matches!(a, Expr::Closure(_)) {
                    ok = false;
                    break;
                }
                match self.expr(a, None) {
                    Ok((_, t)) => ats.push(t),
                    Err(_) => {
                        ok = false;
                        break;
                    }
                }
            }
            if ok {
                let involves_tf = e == Ty::TF || ats.iter().any(|t| t.erase() == Ty::TF);
                if involves_tf {
                    if let Some(f) = self.cr.trait_method(None, &rt, &m, &ats).cloned() {
                        return self.call_fn(&f, Some((recv, rt)), &args);
                    }
                }
            }
        }
        if let Some(r) = self.prim_method(recv.clone(), &rt, &m, &args, exp)? {
            return Ok(r);
        }
        Err(format!("unresolved method {}.{}()", rt, m))
    }

    fn compare(&mut self, op: &str, l: L, lt: &Ty, r: L, rt: &Ty) -> R<(L, Ty)> {
        let (le, re) = (lt.erase(), rt.erase());
        if le.is_prim_num() && re.is_prim_num() || (le == Ty::Bool && re == Ty::Bool) {
            return self.prim_bin(op, l, &le, r, &re);
        }
        if matches!(le, Ty::Param(_)) || matches!(re, Ty::Param(_)) {
            return Err("comparison of generic values".into());
        }
        if le == re && matches!(le, Ty::Opt(_) | Ty::Named(_)) && (op == "==" || op == "!=") {
            let c = L::Bin("==".into(), Box::new(l), Box::new(r));
            return Ok((if op == "==" { c } else { L::Not(Box::new(c)) }, Ty::Bool));
        }
        match op {
            "==" | "!=" => {
                let f = self.cr.op_impl("PartialEq", &le, Some(&re), "eq").ok_or(format!("no PartialEq<{}> for {}", re, le))?;
                let c = L::App(f.lean.clone(), vec![l, r]);
                Ok((if op == "==" { c } else { L::Not(Box::new(c)) }, Ty::Bool))
            }
            _ => {
                let f = self
                    .cr
                    .op_impl("PartialOrd", &le, Some(&re), "partial_cmp")
                    .ok_or(format!("no PartialOrd<{}> for {}", re, le))?;
                let c = L::App(f.lean.clone(), vec![l, r]);
                let h = match op {
                    "<" => "ROrd.isLt",
                    "<=" => "ROrd.isLe",
                    ">" => "ROrd.isGt",
                    _ => "ROrd.isGe",
                };
                Ok((L::App(h.into(), vec![c]), Ty::Bool))
            }
        }
    }

    fn binary(&mut self, b: &ExprBinary, exp: Option<&Ty>) -> R<(L, Ty)> {
        use BinOp::*;
        let op = match b.op {
            Add(_) => "+",
            Sub(_) => "-",
            Mul(_) => "*",
            Div(_) => "/",
            Rem(_) => "%",
            And(_) => "&&",
            Or(_) => "||",
            BitAnd(_) => "&",
            BitOr(_) => "|",
            BitXor(_) => "^",
            Shl(_) => "<<",
            Shr(_) => ">>",
            Eq(_) => "==",
            Ne(_) => "!=",
            Lt(_) => "<",
            Le(_) => "<=",
            Gt(_) => ">",
            Ge(_) => ">=",
            _ => return Err("compound assignment in expression position".into()),
        };
        if op == "&&" || op == "||" {
            let (l, _) = self.expr(&b.left, Some(&Ty::Bool))?;
            let (r, _) = self.expr(&b.right, Some(&Ty::Bool))?;
            return Ok((L::Bin(op.into(), Box::new(l), Box::new(r)), Ty::Bool));
        }
        let cmp = matches!(op, "==" | "!=" | "<" | "<=" | ">" | ">=");
        let shift = matches!(op, "<<" | ">>");
        // operand typing: an unsuffixed integer literal takes the type of the other operand
        let ((l, lt), (r, rt)) = if shift {
            let l = self.expr(&b.left, exp)?;
            let r = self.expr(&b.right, None)?;
            (l, r)
        } else if is_int_lit(&b.left) && !is_int_lit(&b.right) {
            let r = self.expr(&b.right, if cmp { None } else { exp })?;
            let l = self.expr(&b.left, Some(&r.1.erase()))?;
            (l, r)
        } else {
            let l = self.expr(&b.left, if cmp { None } else { exp.filter(|t| t.is_prim_num()) })?;
            let hint = if l.1.erase().is_prim_num() { Some(l.1.erase()) } else { None };
            let r = self.expr(&b.right, hint.as_ref())?;
            (l, r)
        };
        if cmp {
            return self.compare(op, l, &lt, r, &rt);
        }
        let (le, re) = (lt.erase(), rt.erase());
        if le.is_prim_num() && re.is_prim_num() {
            return self.prim_bin(op, l, &le, r, &re);
        }
        if matches!(le, Ty::Param(_)) || matches!(re, Ty::Param(_)) {
            let n = match op {
                "+" => "+.",
                "-" => "-.",
                "*" => "*.",
                "/" => "/.",
                _ => return Err("generic operator".into()),
            };
            return Ok((L::Bin(n.into(), Box::new(l), Box::new(r)), Ty::TF));
        }
        let (tr, m) = match op {
            "+" => ("Add", "add"),
            "-" => ("Sub", "sub"),
            "*" => ("Mul", "mul"),
            "/" => ("Div", "div"),
            "%" => ("Rem", "rem"),
            o => return Err(format!("operator {} on {} and {}", o, lt, rt)),
        };
        let f = self.cr.op_impl(tr, &lt, Some(&rt), m).ok_or(format!("no impl {}<{}> for {}", tr, rt, lt))?;
        Ok((L::App(f.lean.clone(), vec![l, r]), f.ret.clone()))
    }

    fn pattern(&mut self, p: &Pat, t: &Ty) -> R<String> {
        let te = t.erase();
        Ok(match p {
            Pat::Wild(_) => "_".into(),
            Pat::Ident(pi) => {
                let n = pi.ident.to_string();
                if n == "None" {
                    "none".into()
                } else {
                    self.bind(&n, te);
                    lean_ident(&n)
                }
            }
            Pat::Lit(l) => match &l.lit {
                Lit::Bool(b) => format!("{}", b.value),
                _ => return Err("literal pattern".into()),
            },
            Pat::Tuple(pt) => {
                let ts = match &te {
                    Ty::Tuple(ts) => ts.clone(),
                    _ => vec![Ty::Unknown; pt.elems.len()],
                };
                let mut v = vec![];
                for (q, qt) in pt.elems.iter().zip(ts.iter()) {
                    v.push(self.pattern(q, qt)?);
                }
                format!("({})", v.join(", "))
            }
            Pat::TupleStruct(ts) => {
                let c = last_seg(&ts.path);
                let inner = match (&te, c.as_str()) {
                    (Ty::Opt(i), "Some") => (**i).clone(),
                    (Ty::Res(i), "Ok") => (**i).clone(),
                    (Ty::Res(_), "Err") => Ty::Named("TwoFloatError".into()),
                    _ => Ty::Unknown,
                };
                let q = self.pattern(&ts.elems[0], &inner)?;
                match c.as_str() {
                    "Some" => format!("some {}", paren_pat(&q)),
                    "Ok" => format!(".ok {}", paren_pat(&q)),
                    "Err" => format!(".error {}", paren_pat(&q)),
                    o => return Err(format!("pattern {}", o)),
                }
            }
            Pat::Path(pp) => {
                let s = path_strs(&pp.path);
                let last = s.last().unwrap();
                if last == "None" {
                    "none".into()
                } else {
                    format!(".{}", last)
                }
            }
            Pat::Or(po) => {
                let mut v = vec![];
                for c in &po.cases {
                    v.push(self.pattern(c, t)?);
                }
                v.join(" | ")
            }
            Pat::Paren(pp) => self.pattern(&pp.pat, t)?,
            _ => return Err(format!("unsupported pattern {}", quote::quote!(#p))),
        })
    }

    fn match_expr(&mut self, m: &ExprMatch, exp: Option<&Ty>) -> R<(L, Ty)> {
        let (s, st) = self.expr(&m.expr, None)?;
        let ste = st.erase();
        // integer scrutinee with literal arms: if-chain
        if ste.is_int() {
            let mut arms: Vec<(Option<Vec<i128>>, &Expr)> = vec![];
            fn lit_of(p: &Pat) -> R<i128> {
                match p {
                    Pat::Lit(l) => match &l.lit {
                        Lit::Int(i) => i.base10_parse::<i128>().map_err(|e| e.to_string()),
                        _ => Err("non-integer literal arm".into()),
                    },
                    _ => Err("integer match with binding pattern".into()),
                }
            }
            for a in &m.arms {
                if a.guard.is_some() {
                    return Err("guard in integer match".into());
                }
                match &a.pat {
                    Pat::Wild(_) => arms.push((None, &a.body)),
                    Pat::Or(po) => arms.push((Some(po.cases.iter().map(lit_of).collect::<R<Vec<_>>>()?), &a.body)),
                    p => arms.push((Some(vec![lit_of(p)?]), &a.body)),
                }
            }
            let mut out: Option<(L, Ty)> = None;
            for (v, body) in arms.into_iter().rev() {
                let (b, bt) = self.expr(body, exp)?;
                out = Some(match (v, out) {
                    (None, _) => (b, bt),
                    (Some(vs), Some((els, _))) => {
                        let mut c: Option<L> = None;
                        for v in vs {
                            let t = L::Bin("==.".into(), Box::new(s.clone()), Box::new(int_lit(v, &ste)));
                            c = Some(match c {
                                None => t,
                                Some(p) => L::Bin("||".into(), Box::new(p), Box::new(t)),
                            });
                        }
                        (L::If(Box::new(c.unwrap()), Box::new(b), Box::new(els)), bt)
                    }
                    (Some(_), None) => return Err("integer match without wildcard".into()),
                });
            }
            return out.ok_or("empty match".into());
        }
        self.match_arms(&s, &st, &m.arms, exp)
    }

    fn match_arms(&mut self, s: &L, st: &Ty, arms: &[Arm], exp: Option<&Ty>) -> R<(L, Ty)> {
        let mut out = vec![];
        let mut ty = Ty::Unknown;
        for (k, a) in arms.iter().enumerate() {
            self.scopes.push(HashMap::new());
            let r: R<()> = (|| {
                let p = self.pattern(&a.pat, st)?;
                let (b, bt) = self.expr(&a.body, exp)?;
                if ty == Ty::Unknown {
                    ty = bt;
                }
                if let Some((_, g)) = &a.guard {
                    let (gc, _) = self.expr(g, Some(&Ty::Bool))?;
                    // guard failure falls through to the remaining arms
                    let (rest, _) = self.match_arms(s, st, &arms[k + 1..], exp)?;
                    out.push((p, L::If(Box::new(gc), Box::new(b), Box::new(rest.clone()))));
                    if !matches!(a.pat, Pat::Wild(_)) {
                        out.push(("_".into(), rest));
                    }
                    return Err("__guard_done".into());
                }
                out.push((p, b));
                Ok(())
            })();
            self.scopes.pop();
            match r {
                Ok(()) => {}
                Err(e) if e == "__guard_done" => break,
                Err(e) => return Err(e),
            }
        }
        Ok((L::Match(Box::new(s.clone()), out), ty))
    }

    pub fn expr(&mut self, e: &Expr, exp: Option<&Ty>) -> R<(L, Ty)> {
        match e {
            Expr::Lit(l) => match &l.lit {
                Lit::Float(f) => {
                    if f.suffix() == "f32" {
                        return Err("f32 literal".into());
                    }
                    let v: f64 = f.base10_digits().parse().map_err(|_| "float literal")?;
                    Ok((f64_bits_lit(v), Ty::F64))
                }
                Lit::Int(i) => {
                    let v = i.base10_parse::<i128>().map_err(|e| e.to_string())?;
                    if i.suffix() == "f64" {
                        return Ok((f64_bits_lit(v as f64), Ty::F64));
                    }
                    let t = if !i.suffix().is_empty() {
                        int_ty(i.suffix()).ok_or("int suffix")?
                    } else {
                        match exp.map(|t| t.erase()) {
                            Some(t @ Ty::Int(..)) => t,
                            Some(Ty::F64) => return Err("integer literal where f64 expected".into()),
                            _ => int_ty("i32").unwrap(),
                        }
                    };
                    Ok((int_lit(v, &t), t))
                }
                Lit::Bool(b) => Ok((L::raw(format!("{}", b.value)), Ty::Bool)),
                Lit::Str(_) => Ok((L::raw("\"\""), Ty::Unknown)),
                _ => Err("literal".into()),
            },
            Expr::Paren(p) => self.expr(&p.expr, exp),
            Expr::Group(p) => self.expr(&p.expr, exp),
            Expr::Path(p) => self.path_value(p, exp),
            Expr::Reference(r) => {
                let (l, t) = self.expr(&r.expr, exp)?;
                Ok((l, Ty::Ref(Box::new(t))))
            }
            Expr::Unary(u) => match u.op {
                UnOp::Deref(_) => {
                    let (l, t) = self.expr(&u.expr, exp)?;
                    Ok((l, match t {
                        Ty::Ref(i) => *i,
                        o => o,
                    }))
                }
                UnOp::Not(_) => {
                    let (l, t) = self.expr(&u.expr, exp)?;
                    if t.erase() != Ty::Bool {
                        return Err("`!` on non-bool".into());
                    }
                    Ok((L::Not(Box::new(l)), Ty::Bool))
                }
                UnOp::Neg(_) => {
                    if let Expr::Lit(ExprLit { lit: Lit::Int(i), .. }) = &*u.expr {
                        if i.suffix().is_empty() {
                            let v = i.base10_parse::<i128>().map_err(|e| e.to_string())?;
                            let t = match exp.map(|t| t.erase()) {
                                Some(t @ Ty::Int(..)) => t,
                                _ => int_ty("i32").unwrap(),
                            };
                            return Ok((int_lit(-v, &t), t));
                        }
                    }
                    let (l, t) = self.expr(&u.expr, exp)?;
                    match t.erase() {
                        Ty::F64 => Ok((L::App("F64.neg".into(), vec![l]), Ty::F64)),
                        Ty::Int(..) => Ok((L::RangeChk(Box::new(L::App("IntN.neg".into(), vec![l]))), t.erase())),
                        Ty::TF => {
                            let f = self.cr.op_impl("Neg", &t, None, "neg").ok_or("no Neg impl")?;
                            Ok((L::App(f.lean.clone(), vec![l]), Ty::TF))
                        }
                        o => Err(format!("negation of {:?}", o)),
                    }
                }
                _ => Err("unary operator".into()),
            },
            Expr::Binary(b) => self.binary(b, exp),
            Expr::Cast(c) => {
                let dst = self.pty(&c.ty);
                let (l, st) = self.expr(&c.expr, if is_int_lit(&c.expr) { Some(&dst) } else { None })?;
                if st.erase() == dst && !matches!(dst, Ty::F64) {
                    return Ok((l, dst));
                }
                Ok((L::Ann(Box::new(L::App("RCast.cast".into(), vec![l])), dst.lean()), dst))
            }
            Expr::Field(f) => {
                let (l, t) = self.expr(&f.base, None)?;
                match (&t.erase(), &f.member) {
                    (Ty::TF, Member::Named(n)) => Ok((L::Field(Box::new(l), n.to_string()), Ty::F64)),
                    (Ty::Tuple(ts), Member::Unnamed(i)) => {
                        let k = i.index as usize;
                        Ok((L::Field(Box::new(l), format!("{}", k + 1)), ts.get(k).cloned().ok_or("tuple index")?))
                    }
                    (o, _) => Err(format!("field access on {:?}", o)),
                }
            }
            Expr::Index(ix) => {
                let (l, t) = self.expr(&ix.expr, None)?;
                match t.erase() {
                    Ty::Arr(el, Some(2)) if *el == Ty::F64 => match &*ix.index {
                        Expr::Lit(ExprLit { lit: Lit::Int(i), .. }) => {
                            let k: usize = i.base10_parse().map_err(|_| "index")?;
                            Ok((L::Field(Box::new(l), format!("a{}", k)), Ty::F64))
                        }
                        _ => Err("dynamic index into [f64; 2]".into()),
                    },
                    Ty::Arr(el, n) => match &*ix.index {
                        Expr::Range(r) => {
                            let lo = match &r.start {
                                Some(e) => lit_usize(e)?,
                                None => 0,
                            };
                            let hi = match &r.end {
                                Some(e) => lit_usize(e)? + if matches!(r.limits, RangeLimits::Closed(_)) { 1 } else { 0 },
                                None => n.ok_or("open slice of unsized table")?,
                            };
                            if let Some(n) = n {
                                if hi > n || lo > hi {
                                    return Ok((L::Panic, Ty::Arr(el, None)));
                                }
                            }
                            Ok((L::raw(format!("(List.take {} (List.drop {} {}))", hi - lo, lo, l.inl())), Ty::Arr(el, Some(hi - lo))))
                        }
                        idx => {
                            let (i, it) = self.expr(idx, Some(&int_ty("usize").unwrap()))?;
                            let _ = it;
                            let chk = L::App("RIndex.inBounds".into(), vec![l.clone(), i.clone()]);
                            Ok((L::Chk(Box::new(chk), Box::new(L::App("RIndex.index".into(), vec![l, i]))), *el))
                        }
                    },
                    o => Err(format!("index into {:?}", o)),
                }
            }
            Expr::Tuple(t) => {
                let exps: Vec<Option<Ty>> = match exp.map(|t| t.erase()) {
                    Some(Ty::Tuple(ts)) if ts.len() == t.elems.len() => ts.into_iter().map(Some).collect(),
                    _ => vec![None; t.elems.len()],
                };
                let mut ls = vec![];
                let mut ts = vec![];
                for (x, xe) in t.elems.iter().zip(exps.iter()) {
                    let (l, ty) = self.expr(x, xe.as_ref())?;
                    ls.push(l);
                    ts.push(ty.erase());
                }
                Ok((L::Tuple(ls), Ty::Tuple(ts)))
            }
            Expr::Array(a) => {
                let el = match exp.map(|t| t.erase()) {
                    Some(Ty::Arr(e, _)) => Some(*e),
                    _ => None,
                };
                let mut ls = vec![];
                let mut et = el.clone().unwrap_or(Ty::Unknown);
                for x in &a.elems {
                    let (l, t) = self.expr(x, el.as_ref())?;
                    et = t.erase();
                    ls.push(l);
                }
                if et == Ty::F64 && ls.len() == 2 && matches!(exp.map(|t| t.erase()), Some(Ty::Arr(_, Some(2)))) {
                    return Ok((
                        L::Ann(Box::new(L::Struct(vec![("a0".into(), ls[0].clone()), ("a1".into(), ls[1].clone())])), "Arr2".into()),
                        Ty::Arr(Box::new(Ty::F64), Some(2)),
                    ));
                }
                let n = ls.len();
                Ok((L::List(ls), Ty::Arr(Box::new(et), Some(n))))
            }
            Expr::Struct(s) => {
                let segs = path_strs(&s.path);
                let last = segs.last().unwrap().as_str();
                if last == "ConversionError" || last == "ParseError" {
                    return Ok((L::raw(format!("TwoFloatError.{}", last)), Ty::Named("TwoFloatError".into())));
                }
                let is_tf = last == "TwoFloat" || last == "Output" || (last == "Self" && self.self_ty.as_ref().map(|t| t.erase()) == Some(Ty::TF));
                if !is_tf {
                    return Err(format!("struct literal {}", segs.join("::")));
                }
                let mut fs = vec![];
                for f in &s.fields {
                    let n = match &f.member {
                        Member::Named(n) => n.to_string(),
                        _ => return Err("tuple struct".into()),
                    };
                    let (l, _) = self.expr(&f.expr, Some(&Ty::F64))?;
                    fs.push((n, l));
                }
                Ok((L::Ann(Box::new(L::Struct(fs)), "TwoFloat".into()), Ty::TF))
            }
            Expr::Call(c) => {
                if is_panic_call(e) {
                    return Ok((L::Panic, exp.cloned().unwrap_or(Ty::Unknown)));
                }
                self.call(c, exp)
            }
            Expr::MethodCall(mc) => self.method(mc, exp),
            Expr::If(i) => {
                if let Expr::Let(_) = &*i.cond {
                    return Err("if let".into());
                }
                let (c, _) = self.expr(&i.cond, Some(&Ty::Bool))?;
                self.scopes.push(HashMap::new());
                let then = self.stmts(&i.then_branch.stmts, &Tail::Value(exp.cloned()));
                self.scopes.pop();
                let (then, tt) = then?;
                let hint = exp.cloned().or(if tt != Ty::Unknown { Some(tt.clone()) } else { None });
                let (els, et) = match &i.else_branch {
                    Some((_, eb)) => self.expr(eb, hint.as_ref())?,
                    None => return Err("if without else in expression position".into()),
                };
                let t = if tt == Ty::Unknown || matches!(then, L::Panic) { et } else { tt };
                Ok((L::If(Box::new(c), Box::new(then), Box::new(els)), t))
            }
            Expr::Match(m) => self.match_expr(m, exp),
            Expr::Block(b) => {
                if let Some(r) = self.try_poly_block(&b.block)? {
                    return Ok(r);
                }
                self.scopes.push(HashMap::new());
                let r = self.stmts(&b.block.stmts, &Tail::Value(exp.cloned()));
                self.scopes.pop();
                r
            }
            Expr::Return(r) => {
                let ret = self.ret.clone();
                match &r.expr {
                    Some(x) => self.expr(x, Some(&ret)),
                    None => Ok((L::raw("()"), Ty::Unit)),
                }
            }
            Expr::Macro(_) if is_panic_call(e) => Ok((L::Panic, exp.cloned().unwrap_or(Ty::Unknown))),
            _ => Err(format!("unsupported expression: {}", quote::quote!(#e))),
        }
    }
}

fn paren_pat(p: &str) -> String {
    if p.contains(' ') && !p.starts_with('(') {
        format!("({})", p)
    } else {
        p.to_string()
    }
}

fn lit_usize(e: &Expr) -> R<usize> {
    match e {
        Expr::Lit(ExprLit { lit: Lit::Int(i), .. }) => i.base10_parse::<usize>().map_err(|e| e.to_string()),
        _ => Err("non-literal slice bound".into()),
    }
}

fn compound_op(op: &BinOp) -> Option<(&'static str, &'static str, &'static str)> {
    use BinOp::*;
    Some(match op {
        AddAssign(_) => ("+", "AddAssign", "add_assign"),
        SubAssign(_) => ("-", "SubAssign", "sub_assign"),
        MulAssign(_) => ("*", "MulAssign", "mul_assign"),
        DivAssign(_) => ("/", "DivAssign", "div_assign"),
        RemAssign(_) => ("%", "RemAssign", "rem_assign"),
        ShrAssign(_) => (">>", "ShrAssign", "shr_assign"),
        ShlAssign(_) => ("<<", "ShlAssign", "shl_assign"),
        BitAndAssign(_) => ("&", "BitAndAssign", "bitand_assign"),
        BitOrAssign(_) => ("|", "BitOrAssign", "bitor_assign"),
        BitXorAssign(_) => ("^", "BitXorAssign", "bitxor_assign"),
        _ => return None,
    })
}
