// xlate — translate the macro-expanded source of ajtribick/twofloat (rustc -Zunpretty=expanded) to Lean 4.
//
// usage: xlate <expanded.rs> <out-dir> [--ns NAME]
// writes <out-dir>/Gen.lean, defs.json (per-definition text + deps), entrypoints.json,
//        Dispatch.lean (model side of the line protocol), dispatch.rs (implementation side)
mod ir;
mod ty;
mod tr;
mod emit;
mod fx;

use std::fs;

fn main() {
    let args: Vec<String> = std::env::args().collect();
    if args.len() < 3 {
        eprintln!("usage: xlate <expanded.rs> <out-dir>");
        std::process::exit(2);
    }
    let src = fs::read_to_string(&args[1]).expect("read source");
    let file = syn::parse_file(&src).expect("parse expanded source");
    let mut cx = tr::Crate::new();
    cx.index_file(&file);
    cx.translate_all(&file);
    fs::create_dir_all(&args[2]).unwrap();
    emit::emit(&cx, &args[2]);
}
