"""correspondence: run the same case lines through the implementation harness and the Lean model driver"""
import json, subprocess, sys, os, tempfile
from . import fp

def gen_arg(kind, r, valid_only=False):
    if kind == 'f64':
        return [fp.hx(fp.any_f64(r))]
    if kind == 'f32':
        import struct
        x = fp.any_f64(r)
        try:
            return [fp.f32hx(x)]
        except OverflowError:
            return ['7f800000']
    if kind == 'bool':
        return [r.choice(['true', 'false'])]
    if kind == 'tf':
        h, l = fp.valid_tf(r, -1074 + 60, 1023) if valid_only else fp.any_tf(r)
        return [fp.hx(h), fp.hx(l)]
    if kind in ('pair', 'arr2'):
        h, l = fp.any_tf(r)
        return [fp.hx(h), fp.hx(l)]
    if kind in fp.INT_RANGES:
        return [str(fp.any_int(r, kind))]
    raise ValueError(kind)

def gen_case(entry, r, valid_only=False):
    words = [entry['name']]
    for k in entry['args']:
        words += gen_arg(k, r, valid_only)
    return ' '.join(words)

RUN_TIMEOUT = int(os.environ.get('VERIF_RUN_TIMEOUT', '900'))      # seconds per process
MAX_EVENTS = 3                                                      # crashes / hangs tolerated per process stream

def _run_once(cmd, lines, env, timeout):
    try:
        p = subprocess.run(cmd, input=('\n'.join(lines) + '\n').encode(), stdout=subprocess.PIPE, stderr=subprocess.PIPE, env=env, timeout=timeout)
        out = p.stdout.decode().split('\n')
        rc, err, timed_out = p.returncode, p.stderr.decode(), False
    except subprocess.TimeoutExpired as ex:
        out = (ex.stdout or b'').decode().split('\n')
        rc, err, timed_out = -9, 'timeout after %ss' % timeout, True
    if out and out[-1] == '':
        out.pop()
    if timed_out and out:
        out.pop()               # the last line may be partial
    return out, rc, err, timed_out

def run_lines(cmd, lines, env=None):
    """one answer per case line, always.  A process that dies (abort, stack overflow: catch_unwind cannot help) or hangs
    answers `PANIC` for the case it was working on — an abort or a non-terminating call is a panic-class failure of that
    input — and the remaining cases are run in a fresh process, so later answers stay aligned with their cases."""
    out, rc_all, err_all = [], 0, ''
    rest = list(lines)
    guard = 0
    while rest:
        o, rc, err, timed_out = _run_once(cmd, rest, env, RUN_TIMEOUT)
        o = o[:len(rest)]
        out += o
        rc_all = rc_all or rc
        err_all += err
        if len(o) == len(rest):
            break
        # the case at index len(o) killed (or hung) the process: it answers PANIC; after MAX_EVENTS such events the remaining cases
        # are answered SKIPPED (the check ignores them) so that a tree that hangs on a whole class of inputs still finishes
        culprit = len(o)
        if culprit < len(rest):
            out.append('PANIC')
            err_all += ' [process died or hung on: %s]' % rest[culprit]
        rest = rest[culprit + 1:]
        guard += 1
        if guard >= MAX_EVENTS:
            out += ['SKIPPED'] * len(rest)
            break
    return out, rc_all, err_all

def run_parallel(cmd, lines, jobs=8):
    """split the case list into chunks and run `cmd` on each concurrently; output order preserved"""
    from concurrent.futures import ThreadPoolExecutor
    if len(lines) < 2000 or jobs <= 1:
        return run_lines(cmd, lines)
    n = (len(lines) + jobs - 1) // jobs
    chunks = [lines[i:i + n] for i in range(0, len(lines), n)]
    with ThreadPoolExecutor(max_workers=jobs) as ex:
        res = list(ex.map(lambda c: run_lines(cmd, c), chunks))
    out, rc, err = [], 0, ''
    for o, c, e in res:
        out += o
        rc = rc or c
        err += e
    return out, rc, err

def diff(lines, a, b):
    """indices where the two answer streams differ (including length mismatch)"""
    bad = []
    for i, ln in enumerate(lines):
        x = a[i] if i < len(a) else '<missing>'
        y = b[i] if i < len(b) else '<missing>'
        if x != y:
            bad.append((i, ln, x, y))
    return bad
