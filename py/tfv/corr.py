"""correspondence: run the same case lines through the implementation harness and the Lean model driver"""
import json, subprocess, sys, os, tempfile
from . import fp

def gen_arg(kind, r, valid_only=False):
    if kind == 'f64':
        return [fp.hx(fp.any_f64(r))]
    if kind == 'f32':
        import struct
        x = fp.any_f64(r)
        try:
            return [fp.f32hx(x)]
        except OverflowError:
            return ['7f800000']
    if kind == 'bool':
        return [r.choice(['true', 'false'])]
    if kind == 'tf':
        h, l = fp.valid_tf(r, -1074 + 60, 1023) if valid_only else fp.any_tf(r)
        return [fp.hx(h), fp.hx(l)]
    if kind in ('pair', 'arr2'):
        h, l = fp.any_tf(r)
        return [fp.hx(h), fp.hx(l)]
    if kind in fp.INT_RANGES:
        return [str(fp.any_int(r, kind))]
    raise ValueError(kind)

def gen_case(entry, r, valid_only=False):
    words = [entry['name']]
    for k in entry['args']:
        words += gen_arg(k, r, valid_only)
    return ' '.join(words)

def run_lines(cmd, lines, env=None):
    p = subprocess.run(cmd, input=('\n'.join(lines) + '\n').encode(), stdout=subprocess.PIPE, stderr=subprocess.PIPE, env=env)
    out = p.stdout.decode().split('\n')
    if out and out[-1] == '':
        out.pop()
    return out, p.returncode, p.stderr.decode()

def run_parallel(cmd, lines, jobs=8):
    """split the case list into chunks and run `cmd` on each concurrently; output order preserved"""
    from concurrent.futures import ThreadPoolExecutor
    if len(lines) < 2000 or jobs <= 1:
        return run_lines(cmd, lines)
    n = (len(lines) + jobs - 1) // jobs
    chunks = [lines[i:i + n] for i in range(0, len(lines), n)]
    with ThreadPoolExecutor(max_workers=jobs) as ex:
        res = list(ex.map(lambda c: run_lines(cmd, c), chunks))
    out, rc, err = [], 0, ''
    for o, c, e in res:
        out += o
        rc = rc or c
        err += e
    return out, rc, err

def diff(lines, a, b):
    """indices where the two answer streams differ (including length mismatch)"""
    bad = []
    for i, ln in enumerate(lines):
        x = a[i] if i < len(a) else '<missing>'
        y = b[i] if i < len(b) else '<missing>'
        if x != y:
            bad.append((i, ln, x, y))
    return bad
