"""exact oracles (rational arithmetic; mpmath at 600 bits for transcendental clauses).
Used only to SEARCH for failing inputs and to validate hypotheses in the large — never as the claim."""
import math
from fractions import Fraction as Fr
from . import fp

U2 = Fr(1, 2**106)     # u^2, u = 2^-53
U3 = Fr(1, 2**159)

def V(h, l):
    return Fr(h) + Fr(l)

def finite(*xs):
    return all(fp.isfin(x) for x in xs)

def words(ans, k=0):
    """k-th TwoFloat (pair of hex words) in an answer line"""
    w = ans.replace('Some(', '').replace('Ok(', '').replace(')', '').split()
    return fp.unhx(w[2 * k]), fp.unhx(w[2 * k + 1])

def inv_ok(h, l):
    """C01 invariant: valid, or non-finite high word"""
    return (not fp.isfin(h)) or fp.is_valid(h, l)

def rel_ok(R, exact, bound):
    return abs(R - exact) <= bound * abs(exact)

def fmt_err(R, exact):
    if exact == 0:
        return 'abs=%s' % float(abs(R - exact))
    e = abs(R - exact) / abs(exact)
    return 'rel=2^%.2f' % (math.log2(e) if e > 0 else -9999)

def in_range(h, lo_e, hi_e):
    """high word is 0 or has magnitude in [2^lo_e, 2^hi_e]"""
    return h == 0 or (Fr(2) ** lo_e <= abs(Fr(h)) <= Fr(2) ** hi_e)

# ---------------------------------------------------------------- mpmath side
_mp = None
def mp():
    global _mp
    if _mp is None:
        import mpmath
        mpmath.mp.prec = 600
        _mp = mpmath
    return _mp

def mpv(h, l):
    """exact value hi + lo as an mpf: the working precision is raised (never lowered) when the two words are so far apart that the
    sum does not fit — e.g. (-1, 2^-591) needs 644 bits — so that the reference is never computed at a rounded argument"""
    m = mp()
    if l != 0 and h != 0 and fp.isfin(h) and fp.isfin(l):
        need = math.frexp(h)[1] - math.frexp(l)[1] + 53 + 120
        if need > m.mp.prec:
            m.mp.prec = min(need, 2400)
    return m.mpf(h) + m.mpf(l)

def mp_of_fr(q):
    m = mp()
    return m.mpf(q.numerator) / m.mpf(q.denominator)

def mp_abs_err(h, l, true):
    m = mp()
    return abs(mpv(h, l) - true)

def log2_of(x):
    m = mp()
    if x == 0:
        return -99999.0
    return float(m.log(abs(x), 2))
