"""per-property case generators and search oracles (DESIGN §5, §6)"""
import math, re
from fractions import Fraction as Fr
from . import fp
from .fp import hx, unhx
from .oracle import *

A = 'arithmetic.'
def opname(tr, lhs, rhs):
    m = {'Add': 'add', 'Sub': 'sub', 'Mul': 'mul', 'Div': 'div', 'Rem': 'rem'}[tr]
    return '%simpl_%s_%s_for_%s.%s' % (A, tr, rhs, lhs, m)
def asgname(tr, rhs):
    m = {'Add': 'add_assign', 'Sub': 'sub_assign', 'Mul': 'mul_assign', 'Div': 'div_assign', 'Rem': 'rem_assign'}[tr]
    return '%simpl_%sAssign_%s_for_TwoFloat.%s' % (A, tr, rhs, m)

def TT(tr): return opname(tr, 'rTwoFloat', 'rTwoFloat')
def TF_(tr): return opname(tr, 'rTwoFloat', 'rf64')
def FT(tr): return opname(tr, 'rf64', 'rTwoFloat')
NEG = A + 'impl_Neg_for_rTwoFloat.neg'
EQ_TT = 'base.impl_PartialEq_TwoFloat_for_TwoFloat.eq'
EQ_TF = 'base.impl_PartialEq_f64_for_TwoFloat.eq'
EQ_FT = 'base.impl_PartialEq_TwoFloat_for_f64.eq'
CMP_TT = 'base.impl_PartialOrd_TwoFloat_for_TwoFloat.partial_cmp'
CMP_TF = 'base.impl_PartialOrd_f64_for_TwoFloat.partial_cmp'
CMP_FT = 'base.impl_PartialOrd_TwoFloat_for_f64.partial_cmp'

def w2(t):
    return '%s %s' % (hx(t[0]), hx(t[1]))

class Cases:
    def __init__(self):
        self.lines, self.meta = [], []
    def add(self, line, **meta):
        self.lines.append(line)
        self.meta.append(meta)
        return len(self.lines) - 1

def fail(idx, clause, detail):
    return {'idx': idx, 'clause': clause, 'detail': detail}

def args_of(line):
    return line.split()[1:]

# ------------------------------------------------------------------------------------------------ operand generators

def tf_in(r, emin, emax, zero=True):
    return fp.valid_tf(r, emin, emax, allow_zero=zero)

def f_in(r, emin, emax, zero=True):
    if zero and r.below(16) == 0:
        return r.choice([0.0, -0.0])
    return fp.mant_exp(r, r.rng(emin, emax - 1))

def cancel_partner(r, a):
    """b close to -a with a random number of matching leading bits (catastrophic cancellation at every depth)"""
    h, l = a
    k = r.below(110)
    if k == 0:
        return (-h, -l)
    if k < 20 and k >= 12 and h != 0:
        # ~106 bits of cancellation: adjacent (or equal) high words of opposite sign, both low words at / next to the half-ulp limit
        nh = -h
        for _ in range(r.below(3)):
            nh = math.nextafter(nh, r.choice([math.inf, -math.inf]))
        u = fp.ulp(nh)
        lim = fp.rn(u / 2)
        nl = r.choice([lim, math.nextafter(lim, 0.0), fp.rn(u / 4), math.nextafter(fp.rn(u / 4), 0.0), math.nextafter(fp.rn(u / 4), math.inf)]) * r.choice([1, -1])
        if fp.is_valid(nh, nl):
            return (nh, nl)
        return (nh, -l) if fp.is_valid(nh, -l) else (-h, -l)
    if k < 12 and h != 0:
        # high words cancel exactly, the low words are unrelated (different magnitudes, spanning > 53 bits)
        u = fp.ulp(h)
        e = math.frexp(float(u))[1] - 2 - r.choice([0, 0, 1, r.rng(0, 30), r.rng(30, 120)])
        nl = fp.mant_exp(r, max(-1074, e))
        if abs(Fr(nl)) * 2 > u:
            nl = 0.0
        return (-h, nl) if fp.is_valid(-h, nl) else (-h, -l)
    if k < 53:
        d = fp.ulp(h) * r.rng(1, 3) * (2 ** (52 - k)) if h != 0 else Fr(0)
        nh = fp.rn(-Fr(h) + d * r.choice([1, -1]))
        s, t = fp.two_sum(nh, -l)
        return (s, t) if fp.is_valid(s, t) else (-h, -l)
    # same high word, low words differ
    if l == 0:
        return (-h, fp.rn(fp.ulp(h) / 2 ** r.rng(2, 60)) * r.choice([1, -1]))
    nl = math.nextafter(-l, r.choice([math.inf, -math.inf])) if r.below(2) else -l * (1 + 2.0 ** -r.rng(1, 50))
    return (-h, nl) if fp.is_valid(-h, nl) else (-h, -l)

# ================================================================================================ C02

def gen_C02(r, n):
    c = Cases()
    for _ in range(n):
        k = r.below(10)
        a = fp.any_f64(r, finite=True) if k < 7 else fp.mant_exp(r, r.rng(-1074, 1022))
        g = r.below(6)
        if g == 0:
            b = a * r.choice([1, -1])
        elif g == 1:
            b = fp.mant_exp(r, max(-1074, min(1022, (math.frexp(a)[1] if a else 0) + r.rng(-70, 70))))
        elif g == 2:
            b = fp.mant_exp(r, r.rng(-1074, -1000))   # subnormal / tiny
        else:
            b = fp.any_f64(r, finite=True)
        for op in ('new_add', 'new_sub', 'new_mul'):
            c.add('TwoFloat.%s %s %s' % (op, hx(a), hx(b)), op=op)
        # exponent gaps around the absorption boundary (52..56 binades), power-of-two and all-ones significands, both signs
        ea = r.rng(-960, 1020)
        pa = r.choice([math.ldexp(1.0, ea), math.ldexp(1.0, ea) * (2 - 2.0 ** -52), fp.mant_exp(r, ea, 0)]) * r.choice([1, -1])
        pb = fp.mant_exp(r, max(-1074, ea - r.rng(50, 57)))
        for (u_, v_) in ((pa, pb), (pb, pa)):
            for op in ('new_add', 'new_sub'):
                c.add('TwoFloat.%s %s %s' % (op, hx(u_), hx(v_)), op=op)
        if r.below(2) == 0:
            k1 = r.rng(1, 52)
            sa, sb = short_sig(r, k1, -400, 400), short_sig(r, max(1, min(53, 53 - k1 + r.rng(-2, 3))), -400, 400)
            for op in ('new_add', 'new_sub', 'new_mul'):
                c.add('TwoFloat.%s %s %s' % (op, hx(sa), hx(sb)), op=op)
        a2, b2 = f_in(r, -480, 480, zero=False), f_in(r, -480, 480, zero=False)
        c.add('TwoFloat.new_div %s %s' % (hx(a2), hx(b2)), op='new_div')
        x = fp.any_f64(r)
        c.add('TwoFloat.from_f64 %s' % hx(x), op='from')
        c.add('convert.impl_From_f64_for_TwoFloat.from %s' % hx(x), op='from')
    return c

def chk_C02(c, ans):
    out = []
    B1023 = Fr(2) ** 1023
    for i, (ln, m, a) in enumerate(zip(c.lines, c.meta, ans)):
        if a in ('PANIC', 'bad-op'):
            out.append(fail(i, 'no-panic', a)); continue
        ar = [unhx(x) for x in args_of(ln)]
        h, l = words(a)
        op = m['op']
        if op == 'from':
            if not (hx(h) == hx(ar[0]) and hx(l) == hx(0.0)):
                out.append(fail(i, 'from_f64_exact', 'expected (x, +0)'))
            continue
        x, y = ar
        if not finite(x, y):
            continue
        if op in ('new_add', 'new_sub'):
            if not (abs(Fr(x)) < B1023 and abs(Fr(y)) < B1023):
                continue
            ex = Fr(x) + Fr(y) if op == 'new_add' else Fr(x) - Fr(y)
            if h != fp.rn(ex) or not finite(h, l) or V(h, l) != ex:
                out.append(fail(i, op + '_exact', 'hi+lo != exact or hi != RN'))
        elif op == 'new_mul':
            ex = Fr(x) * Fr(y)
            if ex == 0 or (Fr(2) ** -960 <= abs(ex) < B1023):
                if h != fp.rn(ex) or not finite(h, l) or V(h, l) != ex:
                    out.append(fail(i, 'new_mul_exact', 'hi+lo != exact product'))
        elif op == 'new_div':
            ex = Fr(x) / Fr(y)
            if not finite(h, l):
                out.append(fail(i, 'new_div_finite', 'non-finite')); continue
            if abs(Fr(h) - ex) > fp.ulp(h):
                out.append(fail(i, 'new_div_hi_ulp', fmt_err(Fr(h), ex)))
            if not rel_ok(V(h, l), ex, 3 * U2):
                out.append(fail(i, 'new_div_bound', fmt_err(V(h, l), ex)))
    return out

# ================================================================================================ C03 / C04 / C05 / C19 arithmetic bounds

def limit_low(r, h):
    u = fp.ulp(h)
    lim = fp.rn(u / 2)
    q = fp.rn(u / 4)
    return r.choice([lim, math.nextafter(lim, 0.0), q, math.nextafter(q, 0.0), math.nextafter(q, math.inf), math.nextafter(math.nextafter(lim, 0.0), 0.0)]) * r.choice([1, -1])

def deep_cancel_pair(r, emin, emax):
    """~106 bits of cancellation: adjacent or equal high words of opposite sign, BOTH low words at / next to the half- or quarter-ulp limit"""
    h = fp.mant_exp(r, r.rng(emin, emax - 1))
    if r.below(3) == 0:
        h = math.ldexp(1.0, r.rng(emin, emax - 1)) * r.choice([1, -1])      # power of two: asymmetric neighbours
    la = limit_low(r, h)
    a = (h, la) if fp.is_valid(h, la) else (h, 0.0)
    nh = -h
    for _ in range(r.below(3)):
        nh = math.nextafter(nh, r.choice([math.inf, -math.inf]))
    lb = limit_low(r, nh)
    b = (nh, lb) if fp.is_valid(nh, lb) else (nh, -a[1] if fp.is_valid(nh, -a[1]) else 0.0)
    return a, b

def arith_pairs(r, n, emin, emax, cancel=False):
    for _ in range(n):
        if cancel and r.below(8) == 0:
            yield deep_cancel_pair(r, emin, emax)
            continue
        a = tf_in(r, emin, emax)
        k = r.below(8)
        if cancel and k < 3:
            b = cancel_partner(r, a)
        elif k == 3:
            e = (math.frexp(a[0])[1] if a[0] else 0) + r.rng(-110, 110)
            b = tf_in(r, max(emin, min(emax - 1, e)), max(emin + 1, min(emax, e + 1)))
        else:
            b = tf_in(r, emin, emax)
        yield a, b

def gen_C03(r, n):
    c = Cases()
    for a, b in arith_pairs(r, n, -1000, 1000, cancel=True):
        for tr in ('Add', 'Sub'):
            c.add('%s %s %s' % (TT(tr), w2(a), w2(b)), kind='tt', tr=tr)
            c.add('%s %s %s' % (asgname(tr, 'rTwoFloat'), w2(a), w2(b)), kind='tt', tr=tr)
            f = b[0]
            c.add('%s %s %s' % (TF_(tr), w2(a), hx(f)), kind='tf', tr=tr)
            c.add('%s %s %s' % (FT(tr), hx(f), w2(a)), kind='ft', tr=tr)
            c.add('%s %s %s' % (asgname(tr, 'rf64'), w2(a), hx(f)), kind='tf', tr=tr)
    # iterator sums: a few short sequences
    for _ in range(max(4, n // 50)):
        k = r.rng(0, 6)
        xs = [tf_in(r, -100, 100) for _ in range(k)]
        c.add('sum_tf %d %s' % (k, ' '.join(w2(x) for x in xs)), kind='sum', xs=xs)
        fs = [f_in(r, -100, 100) for _ in range(k)]
        c.add('sum_f64 %d %s' % (k, ' '.join(hx(x) for x in fs)), kind='sumf', xs=fs)
    return c

def chk_C03(c, ans):
    out = []
    BTT = 3 * U2 + 13 * U3
    for i, (ln, m, a) in enumerate(zip(c.lines, c.meta, ans)):
        if a in ('PANIC', 'bad-op'):
            out.append(fail(i, 'no-panic', a)); continue
        if m['kind'] in ('sum', 'sumf'):
            m['ans'] = a
            continue
        ar = [unhx(x) for x in args_of(ln)]
        sgn = 1 if m['tr'] == 'Add' else -1
        if m['kind'] == 'tt':
            ex = V(ar[0], ar[1]) + sgn * V(ar[2], ar[3]); bound = BTT
        elif m['kind'] == 'tf':
            ex = V(ar[0], ar[1]) + sgn * Fr(ar[2]); bound = 2 * U2
        else:
            ex = Fr(ar[0]) + sgn * V(ar[1], ar[2]); bound = 2 * U2
        h, l = words(a)
        if not finite(h, l):
            if abs(ex) < Fr(2) ** 1023:
                out.append(fail(i, 'finite', 'non-finite sum of in-range operands'))
            continue
        R = V(h, l)
        if ex == 0:
            if R != 0:
                out.append(fail(i, 'zero_sum', 'exact sum is 0, got %s' % float(R)))
        elif not rel_ok(R, ex, bound):
            out.append(fail(i, 'add_bound_' + m['kind'], fmt_err(R, ex)))
    return out

def sum_followup(c, ans):
    """Iterator::sum == left fold with + from zero: re-run the fold through the operator and compare"""
    c2 = Cases()
    return c2

def short_sig(r, bits, emin, emax):
    m = (r.next() & ((1 << bits) - 1)) | (1 << (bits - 1)) | 1
    if r.below(4) == 0:
        m = (1 << bits) - 1 - 2 * r.below(3)
    return math.ldexp(float(m), r.rng(emin, emax - bits)) * r.choice([1, -1])

def short_pairs(r, n, emin, emax):
    """factors whose significand lengths sum to about 53: the boundary between exact and inexact products"""
    for _ in range(n):
        k1 = r.rng(1, 52)
        k2 = max(1, min(53, 53 - k1 + r.rng(-2, 3)))
        x, y = short_sig(r, k1, emin, emax), short_sig(r, k2, emin, emax)
        la = r.choice([0.0, fp.rn(fp.ulp(x) / 2 ** r.rng(2, 40)) * r.choice([1, -1])])
        lb = r.choice([0.0, fp.rn(fp.ulp(y) / 2 ** r.rng(2, 40)) * r.choice([1, -1])])
        a = (x, la) if fp.is_valid(x, la) else (x, 0.0)
        b = (y, lb) if fp.is_valid(y, lb) else (y, 0.0)
        yield a, b

def worst_mul_pairs(r, n, emin, emax):
    """low word just inside the half-ulp limit, and a factor that puts hi*f right next to a power of two
    (where the relative weight of every rounding error is largest)"""
    for _ in range(n):
        h = fp.mant_exp(r, r.rng(emin, emax - 1))
        half = fp.rn(fp.ulp(h) / 2)
        l = math.nextafter(half, 0.0) * r.choice([1, -1])
        for _k in range(r.below(4)):
            l = math.nextafter(l, 0.0)
        a = (h, l) if fp.is_valid(h, l) else (h, 0.0)
        f = fp.rn(Fr(2) ** r.rng(-40, 40) / Fr(h))
        if r.below(2):
            for _k in range(r.below(12)):
                f = math.nextafter(f, math.inf if h > 0 else -math.inf)
        else:
            # wide variant: product a few percent above the power of two, low word within ~2% of the limit, full mantissas
            f = fp.rn(Fr(f) * (1 + Fr(r.rng(0, 2**40), 2**40) / 16))
            l = fp.rn(Fr(half) * (1 - Fr(r.rng(0, 2**40), 2**40) / 50)) * r.choice([1, -1])
            a = (h, l) if fp.is_valid(h, l) else a
        lb = r.choice([0.0, fp.rn(fp.ulp(f) / 2) * r.choice([1, -1]), math.nextafter(fp.rn(fp.ulp(f) / 2), 0.0) * r.choice([1, -1])])
        b = (f, lb) if fp.is_valid(f, lb) else (f, 0.0)
        yield a, b

def near_pow2_pairs(r, n, emin, emax):
    """BOTH operands a few ulps above a power of two with a low word just inside the half-ulp limit (either sign): the
    relative weight of the lo*lo term and of every rounding error is largest there (DWTimesDW3 is sharp to within ~1u^2)"""
    def one():
        e = r.rng(emin, emax - 1)
        h = math.ldexp(1.0 + r.rng(0, 12) * 2.0 ** -52, e)
        half = fp.rn(fp.ulp(h) / 2)
        l = math.nextafter(half, 0.0)
        for _k in range(r.below(10)):
            l = math.nextafter(l, 0.0)
        l *= r.choice([1, 1, -1])
        x = (h, l) if fp.is_valid(h, l) else (h, 0.0)
        sg = r.choice([1.0, -1.0])
        return (x[0] * sg, x[1] * sg)
    for _ in range(n):
        yield one(), one()
    # the whole corner grid (deterministic up to the binades and signs): high words 1 + j ulp, low words half an ulp minus 1..10 units,
    # low word on the same side as the high word — a mis-signed lo*lo term reaches 6u^2 on 0.25% of this grid and nowhere else
    e1, e2, s1, s2 = r.rng(emin, emax - 1), r.rng(emin, emax - 1), r.choice([1.0, -1.0]), r.choice([1.0, -1.0])
    for j1 in range(0, 9):
        for j2 in range(0, 9):
            for k1 in range(1, 11):
                for k2 in range(1, 11):
                    a = (math.ldexp(1.0 + j1 * 2.0 ** -52, e1) * s1, math.ldexp(2.0 ** -53 - k1 * 2.0 ** -106, e1) * s1)
                    b = (math.ldexp(1.0 + j2 * 2.0 ** -52, e2) * s2, math.ldexp(2.0 ** -53 - k2 * 2.0 ** -106, e2) * s2)
                    yield a, b

def gen_C04(r, n):
    c = Cases()
    import itertools
    for a, b in itertools.chain(arith_pairs(r, n, -450, 450), short_pairs(r, n // 2, -300, 300), worst_mul_pairs(r, n, -300, 300), near_pow2_pairs(r, n // 2, -200, 200)):
        c.add('%s %s %s' % (TT('Mul'), w2(a), w2(b)), kind='tt')
        c.add('%s %s %s' % (asgname('Mul', 'rTwoFloat'), w2(a), w2(b)), kind='tt')
        f = b[0] if b[0] != 0 or r.below(2) else 1.5
        c.add('%s %s %s' % (TF_('Mul'), w2(a), hx(f)), kind='tf')
        c.add('%s %s %s' % (FT('Mul'), hx(f), w2(a)), kind='ft')
        c.add('%s %s %s' % (asgname('Mul', 'rf64'), w2(a), hx(f)), kind='tf')
        # exact clauses
        k = r.rng(-400, 400)
        p = math.ldexp(1.0, k) * r.choice([1, -1])
        for f2 in (1.0, -1.0, p, 0.0, -0.0):
            c.add('%s %s %s' % (TF_('Mul'), w2(a), hx(f2)), kind='tf', exact=True)
            c.add('%s %s %s' % (TT('Mul'), w2(a), w2((f2, 0.0))), kind='tt', exact=True)
            c.add('%s %s %s' % (FT('Mul'), hx(f2), w2(a)), kind='ft', exact=True)
    return c

def chk_C04(c, ans):
    out = []
    tiny = Fr(2) ** -1074
    for i, (ln, m, a) in enumerate(zip(c.lines, c.meta, ans)):
        if a in ('PANIC', 'bad-op'):
            out.append(fail(i, 'no-panic', a)); continue
        ar = [unhx(x) for x in args_of(ln)]
        if m['kind'] == 'tt':
            x, y = V(ar[0], ar[1]), V(ar[2], ar[3]); bound = 5 * U2
            xw = (ar[0], ar[1]); yw = (ar[2], ar[3])
        elif m['kind'] == 'tf':
            x, y = V(ar[0], ar[1]), Fr(ar[2]); bound = 2 * U2
            xw = (ar[0], ar[1]); yw = (ar[2], 0.0)
        else:
            x, y = Fr(ar[0]), V(ar[1], ar[2]); bound = 2 * U2
            xw = (ar[0], 0.0); yw = (ar[1], ar[2])
        ex = x * y
        h, l = words(a)
        if not finite(h, l):
            out.append(fail(i, 'finite', 'non-finite product of in-range operands')); continue
        R = V(h, l)
        if ex == 0:
            if R != 0:
                out.append(fail(i, 'mul_zero', 'zero factor, got %s' % float(R)))
            continue
        if m.get('exact'):
            # ±1 exact; power of two exact when the scaled low word does not underflow (is a multiple of 2^-1074)
            lo_scaled = [Fr(w[1]) * abs(Fr(o[0])) for w, o in ((xw, yw), (yw, xw))]
            no_underflow = all(q.denominator <= 2 ** 1074 for q in lo_scaled) and abs(ex) >= Fr(2) ** -1022
            if no_underflow and R != ex:
                out.append(fail(i, 'mul_exact_pow2', fmt_err(R, ex)))
            continue
        if not rel_ok(R, ex, bound):
            out.append(fail(i, 'mul_bound_' + m['kind'], fmt_err(R, ex)))
    return out

def pow2_divisors(r, n):
    for _ in range(n):
        a = tf_in(r, -450, 450, zero=False)
        k = r.rng(-440, 440)
        h = math.ldexp(1.0, k) * r.choice([1, -1])
        l = fp.rn(fp.ulp(h) / 2 ** r.rng(1, 60)) * r.choice([1, -1])
        if r.below(3) == 0:
            l = -abs(l) if h > 0 else abs(l)
        yield a, ((h, l) if fp.is_valid(h, l) else (h, 0.0))

def gen_C05(r, n):
    c = Cases()
    import itertools
    for a, b in itertools.chain(arith_pairs(r, n, -450, 450), pow2_divisors(r, n // 3), short_pairs(r, n // 3, -300, 300), worst_mul_pairs(r, n // 3, -300, 300)):
        if b[0] == 0:
            b = (1.5, 0.0)
        a = a if a[0] != 0 or r.below(4) else (3.0, 0.0)
        c.add('%s %s %s' % (TT('Div'), w2(a), w2(b)), kind='tt')
        c.add('%s %s %s' % (asgname('Div', 'rTwoFloat'), w2(a), w2(b)), kind='tt')
        c.add('%s %s %s' % (TF_('Div'), w2(a), hx(b[0])), kind='tf')
        c.add('%s %s %s' % (asgname('Div', 'rf64'), w2(a), hx(b[0])), kind='tf')
        c.add('%s %s %s' % (FT('Div'), hx(a[0] if a[0] != 0 else 1.0), w2(b)), kind='ft')
        c.add('TwoFloat.recip %s' % w2(b), kind='recip')
        # exact clauses
        if a[0] != 0:
            c.add('%s %s %s' % (TT('Div'), w2(a), w2(a)), kind='tt', exact='self')
        k = r.rng(-400, 400)
        p = math.ldexp(1.0, k) * r.choice([1, -1])
        for f2 in (1.0, -1.0, p):
            c.add('%s %s %s' % (TF_('Div'), w2(a), hx(f2)), kind='tf', exact='pow2')
            c.add('%s %s %s' % (TT('Div'), w2(a), w2((f2, 0.0))), kind='tt', exact='pow2')
        c.add('%s %s %s' % (TT('Div'), w2((0.0, 0.0)), w2(b)), kind='tt', exact='zero')
        c.add('%s %s %s' % (TF_('Div'), w2((0.0, 0.0)), hx(b[0])), kind='tf', exact='zero')
        c.add('%s %s %s' % (FT('Div'), hx(0.0), w2(b)), kind='ft', exact='zero')
    return c

def chk_C05(c, ans):
    out = []
    for i, (ln, m, a) in enumerate(zip(c.lines, c.meta, ans)):
        if a in ('PANIC', 'bad-op'):
            out.append(fail(i, 'no-panic', a)); continue
        ar = [unhx(x) for x in args_of(ln)]
        k = m['kind']
        if k == 'tt':
            x, y, bound = V(ar[0], ar[1]), V(ar[2], ar[3]), 16 * U2
            xlo = ar[1]
        elif k == 'tf':
            x, y, bound = V(ar[0], ar[1]), Fr(ar[2]), 3 * U2
            xlo = ar[1]
        elif k == 'ft':
            x, y, bound = Fr(ar[0]), V(ar[1], ar[2]), 16 * U2
            xlo = 0.0
        else:
            x, y, bound = Fr(1), V(ar[0], ar[1]), 16 * U2
            xlo = 0.0
        if y == 0:
            continue
        ex = x / y
        h, l = words(a)
        if not finite(h, l):
            out.append(fail(i, 'finite', 'non-finite quotient of in-range operands')); continue
        R = V(h, l)
        e = m.get('exact')
        if e == 'self':
            if not (h == 1.0 and l == 0.0):
                out.append(fail(i, 'div_self', 'x/x = (%s, %s)' % (hx(h), hx(l))))
        elif e == 'zero':
            if R != 0:
                out.append(fail(i, 'zero_div', '0/x != 0'))
        elif e == 'pow2':
            lo_scaled = Fr(xlo) / abs(y)
            if lo_scaled.denominator <= 2 ** 1074 and (ex == 0 or abs(ex) >= Fr(2) ** -1022) and R != ex:
                out.append(fail(i, 'div_exact_pow2', fmt_err(R, ex)))
        elif ex == 0:
            if R != 0:
                out.append(fail(i, 'zero_div', '0/x != 0'))
        elif not rel_ok(R, ex, bound):
            out.append(fail(i, 'div_bound_' + k, fmt_err(R, ex)))
    return out

def gen_C19(r, n):
    c = Cases()
    for _ in range(n):
        k = r.below(6)
        b = tf_in(r, -400, 400, zero=False)
        if k <= 1:
            # small integers: exact clause
            ai, bi = r.rng(-2**52, 2**52), r.rng(1, 2**r.rng(1, 52)) * r.choice([1, -1])
            a, b = (float(ai), 0.0), (float(bi), 0.0)
            exact = True
        else:
            exact = False
            q = r.choice([r.rng(-40, 40), r.rng(-2**40, 2**40), 0, ((1 << r.rng(1, 88)) + r.rng(-3, 3)) * r.choice([1, -1]),
                          ((1 << r.rng(50, 56)) + r.rng(-3, 3)) * r.choice([1, -1])])
            if k in (2, 3):
                # a = q*b (+ tiny): quotient at / next to an integer; k == 3: integer part q with a generic fractional part
                exq = V(*b) * (q if k == 2 else q + Fr(r.rng(1, 2**20 - 1), 2**20) * (1 if q >= 0 else -1))
                hh = fp.rn(exq); ll = fp.rn(exq - Fr(hh))
                a = (hh, ll) if fp.is_valid(hh, ll) and fp.isfin(hh) else tf_in(r, -400, 400)
                if r.below(2) and a[1] != 0:
                    a = (a[0], math.nextafter(a[1], r.choice([math.inf, -math.inf])))
                    if not fp.is_valid(*a):
                        a = (a[0], 0.0)
            else:
                e = math.frexp(b[0])[1] + r.rng(-30, 85)
                a = tf_in(r, max(-400, min(399, e)), max(-399, min(400, e + 1)))
        if b[0] == 0 or a[0] != 0 and abs(Fr(a[0]) / Fr(b[0])) > Fr(2) ** 89:
            continue
        for op in (TT('Rem'), asgname('Rem', 'rTwoFloat')):
            c.add('%s %s %s' % (op, w2(a), w2(b)), kind='rem', a=a, b=b, exact=exact)
        c.add('%s %s %s' % (TF_('Rem'), w2(a), hx(b[0])), kind='rem', a=a, b=(b[0], 0.0), exact=exact)
        c.add('%s %s %s' % (asgname('Rem', 'rf64'), w2(a), hx(b[0])), kind='rem', a=a, b=(b[0], 0.0), exact=exact)
        c.add('%s %s %s' % (FT('Rem'), hx(a[0]), w2(b)), kind='rem', a=(a[0], 0.0), b=b, exact=exact)
        c.add('TwoFloat.div_euclid %s %s' % (w2(a), w2(b)), kind='dive', a=a, b=b, exact=exact)
        c.add('TwoFloat.rem_euclid %s %s' % (w2(a), w2(b)), kind='reme', a=a, b=b, exact=exact)
    return c

def chk_C19(c, ans):
    out = []
    for i, (ln, m, a) in enumerate(zip(c.lines, c.meta, ans)):
        if a in ('PANIC', 'bad-op'):
            out.append(fail(i, 'no-panic', a)); continue
        av, bv = V(*m['a']), V(*m['b'])
        if bv == 0:
            continue
        q = av / bv
        if abs(q) > Fr(2) ** 90:
            continue
        h, l = words(a)
        if not finite(h, l):
            out.append(fail(i, 'finite', 'non-finite')); continue
        R = V(h, l)
        tol = 16 * U2 * max(abs(av), abs(bv))
        kt = int(q)  # truncation toward zero (Fraction.__trunc__)
        near = q != 0 and min(abs(q - round(q)), 1) <= Fr(1, 2 ** 98) * abs(q)
        cands_t = [kt] + ([kt - 1, kt + 1] if near else [])
        fl = math.floor(q) if bv > 0 else math.ceil(q)
        cands_e = [fl] + ([fl - 1, fl + 1] if near else [])
        k = m['kind']
        if m['exact']:
            exv = {'rem': av - kt * bv, 'dive': Fr(fl), 'reme': av - fl * bv}[k]
            if R != exv:
                out.append(fail(i, k + '_exact_int', 'got %s want %s' % (float(R), float(exv))))
            continue
        if k == 'rem':
            if not any(abs(R - (av - kk * bv)) <= tol for kk in cands_t):
                out.append(fail(i, 'rem_tolerance', 'r=%s q=%s' % (float(R), float(q))))
        elif k == 'dive':
            if not fp.is_valid(h, l) or R not in [Fr(x) for x in cands_e]:
                out.append(fail(i, 'div_euclid', 'got %s want %s' % (float(R), fl)))
        else:
            if not any(abs(R - (av - kk * bv)) <= tol for kk in cands_e):
                out.append(fail(i, 'rem_euclid_tolerance', 'r=%s q=%s' % (float(R), float(q))))
    return out

# ================================================================================================ C06

SPECIAL_WORDS = [math.nan, math.inf, -math.inf, 0.0, -0.0, 1.0, -1.0, 2.0 ** -53, 5e-324, 1.7976931348623157e308]

def gen_C06(r, n):
    c = Cases()
    # every combination of special words in the four positions (non-finite / NaN-containing values are
    # reachable through the API: overflow, 0/0, new_add(inf, 1) = (inf, NaN) ...)
    combos = [(h, l) for h in SPECIAL_WORDS for l in SPECIAL_WORDS]
    for a in combos:
        for _ in range(max(1, n // 200)):
            b = r.choice(combos)
            for op in (EQ_TT, CMP_TT):
                c.add('%s %s %s' % (op, w2(a), w2(b)), kind=op, a=a, b=b)
                c.add('%s %s %s' % (op, w2(b), w2(a)), kind=op, a=b, b=a)
    for a in combos:
        if a[0] == a[0] and not fp.isfin(a[0]) or a[1] != a[1]:
            for b in combos:
                if any(x != x or math.isinf(x) for x in b):
                    for op in (EQ_TT, CMP_TT):
                        c.add('%s %s %s' % (op, w2(a), w2(b)), kind=op, a=a, b=b)
                        c.add('%s %s %s' % (op, w2(b), w2(a)), kind=op, a=b, b=a)
    for _ in range(n):
        a = fp.any_tf(r)
        k = r.below(8)
        if k == 0:
            b = a
        elif k == 1 and fp.is_valid(*a):
            b = (a[0], -a[1]) if a[1] == 0 else (a[0], math.nextafter(a[1], r.choice([math.inf, -math.inf])))
        elif k == 2:
            b = (-a[0], -a[1])
        elif k == 3:
            b = (a[0], 0.0)
        elif k == 4:
            b = (math.nextafter(a[0], r.choice([math.inf, -math.inf])) if fp.isfin(a[0]) else a[0], a[1])
        else:
            b = fp.any_tf(r)
        cf = r.choice([a[0], b[0], fp.any_f64(r)])
        for op in (EQ_TT, CMP_TT):
            c.add('%s %s %s' % (op, w2(a), w2(b)), kind=op, a=a, b=b)
            c.add('%s %s %s' % (op, w2(b), w2(a)), kind=op, a=b, b=a)
        c.add('%s %s %s' % (EQ_TF, w2(a), hx(cf)), kind='eq_tf', a=a, c=cf)
        c.add('%s %s %s' % (EQ_FT, hx(cf), w2(a)), kind='eq_ft', a=a, c=cf)
        c.add('%s %s %s' % (CMP_TF, w2(a), hx(cf)), kind='cmp_tf', a=a, c=cf)
        c.add('%s %s %s' % (CMP_FT, hx(cf), w2(a)), kind='cmp_ft', a=a, c=cf)
        c.add('TwoFloat.min %s %s' % (w2(a), w2(b)), kind='min', a=a, b=b)
        c.add('TwoFloat.max %s %s' % (w2(a), w2(b)), kind='max', a=a, b=b)
        c.add('TwoFloat.abs %s' % w2(a), kind='abs', a=a)
        c.add('TwoFloat.is_sign_negative %s' % w2(a), kind='isneg', a=a)
        c.add('TwoFloat.is_sign_positive %s' % w2(a), kind='ispos', a=a)
        c.add('TwoFloat.signum %s' % w2(a), kind='signum', a=a)
        c.add('TwoFloat.copysign %s %s' % (w2(a), w2(b)), kind='copysign', a=a, b=b)
    return c

def cmp3(x, y):
    return 'Some(Less)' if x < y else ('Some(Equal)' if x == y else 'Some(Greater)')

def chk_C06(c, ans):
    out = []
    idx = {}
    for i, (ln, m, a) in enumerate(zip(c.lines, c.meta, ans)):
        if a in ('PANIC', 'bad-op'):
            out.append(fail(i, 'no-panic', a)); continue
        k = m['kind']
        A_ = m['a']
        va = fp.is_valid(*A_)
        nanA = any(x != x for x in A_)
        if k in (EQ_TT, CMP_TT):
            B_ = m['b']
            vb = fp.is_valid(*B_)
            nanB = any(x != x for x in B_)
            idx[(k, w2(A_), w2(B_))] = a
            if nanA or nanB:
                want = 'false' if k == EQ_TT else 'None'
                if a != want:
                    out.append(fail(i, 'nan_word_unordered', 'got %s' % a))
            elif va and vb:
                want = cmp3(V(*A_), V(*B_))
                if k == EQ_TT:
                    want = 'true' if want == 'Some(Equal)' else 'false'
                if a != want:
                    out.append(fail(i, 'cmp_exact', 'got %s want %s' % (a, want)))
        elif k in ('eq_tf', 'eq_ft', 'cmp_tf', 'cmp_ft'):
            cf = m['c']
            if not va:
                continue
            if cf != cf:
                want = 'false' if k.startswith('eq') else 'None'
            else:
                x, y = V(*A_), (Fr(cf) if fp.isfin(cf) else (Fr(10) ** 400 * (1 if cf > 0 else -1)))
                if k.endswith('ft'):
                    x, y = y, x
                want = cmp3(x, y)
                if k.startswith('eq'):
                    want = 'true' if want == 'Some(Equal)' else 'false'
            if a != want:
                out.append(fail(i, 'cmp_f64_exact', 'got %s want %s' % (a, want)))
        elif k in ('min', 'max'):
            B_ = m['b']
            vb = fp.is_valid(*B_)
            h, l = words(a)
            got = (hx(h), hx(l))
            if va and vb:
                x, y = V(*A_), V(*B_)
                if x == y:
                    ok = got in ((hx(A_[0]), hx(A_[1])), (hx(B_[0]), hx(B_[1])))
                else:
                    w = A_ if ((x < y) == (k == 'min')) else B_
                    ok = got == (hx(w[0]), hx(w[1]))
                if not ok:
                    out.append(fail(i, k + '_exact', 'got %s' % a))
            elif va != vb:
                w = A_ if va else B_
                if got != (hx(w[0]), hx(w[1])):
                    out.append(fail(i, k + '_skip_invalid', 'got %s' % a))
        elif k == 'abs':
            if va:
                h, l = words(a)
                if V(h, l) != abs(V(*A_)):
                    out.append(fail(i, 'abs_exact', 'got %s' % a))
        elif k in ('isneg', 'ispos'):
            if va and V(*A_) != 0:
                neg = V(*A_) < 0
                want = 'true' if (neg == (k == 'isneg')) else 'false'
                if a != want:
                    out.append(fail(i, 'sign_query', 'got %s' % a))
        elif k == 'signum':
            if va and V(*A_) != 0:
                h, l = words(a)
                want = 1 if V(*A_) > 0 else -1
                if V(h, l) != want:
                    out.append(fail(i, 'signum', 'got %s' % a))
        elif k == 'copysign':
            B_ = m['b']
            if va and fp.is_valid(*B_) and V(*A_) != 0 and V(*B_) != 0:
                h, l = words(a)
                want = abs(V(*A_)) * (1 if V(*B_) > 0 else -1)
                if V(h, l) != want:
                    out.append(fail(i, 'copysign', 'got %s' % a))
    # symmetry of == and == <-> Some(Equal)
    for i, (ln, m, a) in enumerate(zip(c.lines, c.meta, ans)):
        if m['kind'] == EQ_TT:
            A_, B_ = m['a'], m['b']
            rev = idx.get((EQ_TT, w2(B_), w2(A_)))
            if rev is not None and rev != a:
                out.append(fail(i, 'eq_symm', 'a==b is %s but b==a is %s' % (a, rev)))
            pc = idx.get((CMP_TT, w2(A_), w2(B_)))
            if pc is not None and ((a == 'true') != (pc == 'Some(Equal)')):
                out.append(fail(i, 'eq_iff_partial_cmp_equal', '== %s, partial_cmp %s' % (a, pc)))
    return out

# ================================================================================================ C07

def gen_C07(r, n, thorough=False):
    c = Cases()
    def add(a, b):
        c.add('base.no_overlap %s %s' % (hx(a), hx(b)), kind='no', a=a, b=b)
        c.add('TwoFloat.is_valid %s %s' % (hx(a), hx(b)), kind='iv', a=a, b=b)
        c.add('convert.impl_TryFrom_tup_f64_f64_for_TwoFloat.try_from %s %s' % (hx(a), hx(b)), kind='try', a=a, b=b)
        c.add('convert.impl_TryFrom_arr2_f64_for_TwoFloat.try_from %s %s' % (hx(a), hx(b)), kind='try', a=a, b=b)
    # exponent grid x mantissa classes x thresholds
    exps = list(range(-1074, 1024)) if thorough else [r.rng(-1074, 1023) for _ in range(max(8, n // 60))] + [-1074, -1073, -1023, -1022, -1021, -1020, 0, 1, 52, 53, 1022, 1023]
    mants = [0, 1, 2, (1 << 52) - 1, (1 << 52) - 2, 1 << 51]
    for e in exps:
        for mi in mants + [r.next() & ((1 << 52) - 1) for _ in range(2)]:
            for sa in (0, 1):
                if e < -1022:
                    k = e + 1074
                    bits = (1 << k) | (mi & ((1 << k) - 1))
                else:
                    bits = ((e + 1023) << 52) | mi
                a = fp.fbits((sa << 63) | bits)
                u = fp.ulp(a)
                for frac in (Fr(1, 2), Fr(1, 4)):
                    t = fp.rn(u * frac)
                    for b in (t, math.nextafter(t, 0.0), math.nextafter(t, math.inf)):
                        for sb in (1, -1):
                            add(a, b * sb)
                for b in (0.0, -0.0, math.inf, -math.inf, math.nan, 5e-324, -5e-324, a, -a):
                    add(a, b)
    for _ in range(n):
        a, b = fp.any_f64(r), fp.any_f64(r)
        add(a, b)
        h, l = fp.any_tf(r)
        add(h, l)
    for a in (math.inf, -math.inf, math.nan):
        for b in (0.0, 1.0, math.inf, math.nan, -math.inf):
            add(a, b)
    return c

def chk_C07(c, ans):
    out = []
    for i, (ln, m, a) in enumerate(zip(c.lines, c.meta, ans)):
        if a in ('PANIC', 'bad-op'):
            out.append(fail(i, 'no-panic', a)); continue
        x, y = m['a'], m['b']
        spec = fp.isfin(x) and (x + y == x)
        k = m['kind']
        if k == 'no':
            if a != ('true' if spec else 'false'):
                out.append(fail(i, 'no_overlap_iff', 'got %s, a+b==a is %s' % (a, spec)))
        elif k == 'iv':
            if a != ('true' if (spec and fp.isfin(y)) else 'false'):
                out.append(fail(i, 'is_valid_iff', 'got %s' % a))
        else:
            if spec:
                if a != 'Ok(%s %s)' % (hx(x), hx(y)):
                    out.append(fail(i, 'try_from_preserves_bits', 'got %s' % a))
            elif a != 'Err':
                out.append(fail(i, 'try_from_rejects', 'got %s' % a))
    return out

# ================================================================================================ C08

def gen_C08(r, n):
    c = Cases()
    def add(t):
        for f in ('floor', 'ceil', 'trunc', 'round', 'fract'):
            c.add('TwoFloat.%s %s' % (f, w2(t)), f=f, t=t)
    for _ in range(n):
        k = r.below(10)
        if k < 4:
            # integer or half-integer high word with an adversarial low word
            e = r.rng(0, 200)
            hi = fp.mant_exp(r, e)
            if r.below(2):
                hi = float(r.rng(-2**53, 2**53)) / r.choice([1, 2])
            u = fp.ulp(hi)
            cand = [0.5, -0.5, 1.0, -1.0, 1.5, -1.5, 0.25, -0.25, 1e-200, -1e-200, 0.75, 2.5, -2.5, float(r.rng(-1000, 1000)) / 4]
            lo = r.choice(cand)
            kk = r.below(4)
            if kk == 0:
                # immediate neighbours of the (half-)integers: where an added 0.5 or a comparison with 0.5 rounds
                lo = math.nextafter(lo, r.choice([math.inf, -math.inf]))
            elif kk == 1 and fp.POOL:
                lo = fp.from_pool(r)
            if r.below(3) == 0:
                lo = fp.mant_exp(r, r.rng(-60, max(-59, e - 54)))
            s, t = fp.two_sum(hi, lo)
            if fp.is_valid(s, t):
                add((s, t))
        elif k < 6:
            add(tf_in(r, -60, 200))
        elif k < 8:
            # large values whose fractional part lives in the low word
            e = r.rng(53, 105)
            hi = fp.mant_exp(r, e)
            lo = (r.rng(-2**20, 2**20) + r.choice([0, 0.5, 0.25, 0.75])) * r.choice([1, 1, 2.0 ** r.rng(0, 30)])
            s, t = fp.two_sum(hi, lo)
            if fp.is_valid(s, t):
                add((s, t))
        else:
            add(tf_in(r, -1000, 1000))
    for t in ((0.0, 0.0), (-0.0, 0.0), (-0.0, -0.0), (0.5, 0.0), (-0.5, 0.0), (1.0, -1e-300), (-1.0, 1e-300), (2.5, 0.0), (2.5, -1e-30), (-2.5, 1e-30)):
        add(t)
    return c

def chk_C08(c, ans):
    out = []
    for i, (ln, m, a) in enumerate(zip(c.lines, c.meta, ans)):
        if a in ('PANIC', 'bad-op'):
            out.append(fail(i, 'no-panic', a)); continue
        v = V(*m['t'])
        h, l = words(a)
        if not fp.is_valid(h, l):
            out.append(fail(i, m['f'] + '_valid', 'result (%s,%s) is not valid' % (hx(h), hx(l)))); continue
        R = V(h, l)
        f = m['f']
        tr = Fr(int(v))
        if f == 'floor':
            want = Fr(math.floor(v))
        elif f == 'ceil':
            want = Fr(math.ceil(v))
        elif f == 'trunc':
            want = tr
        elif f == 'round':
            want = Fr(math.floor(abs(v) + Fr(1, 2))) * (1 if v >= 0 else -1)
        else:
            want = v - tr
        if R != want:
            out.append(fail(i, f + '_exact', 'v=%s got %s want %s' % (float(v), float(R), float(want))))
    return out

# ================================================================================================ C09

SMALL = ['i8', 'i16', 'i32', 'u8', 'u16', 'u32']
BIG = ['i64', 'u64', 'i128', 'u128']

def gen_C09(r, n, thorough=False):
    c = Cases()
    for ty in SMALL + BIG:
        lo, hi = fp.INT_RANGES[ty]
        if ty in ('i8', 'u8') or (thorough and ty in ('i16', 'u16')):
            vals = list(range(lo, hi + 1))
        else:
            vals = [fp.any_int(r, ty) for _ in range(n)] + [lo, hi, 0, 1, hi - 1, lo + 1]
            if ty in BIG:
                # remainders that round onto a half-ulp tie of the high word: M odd (53 bits), n = M·2^s + 2^(s-1) ± d
                for _ in range(n):
                    bl = hi.bit_length()
                    s_ = r.rng(1, bl - 53)
                    M = (r.next() & ((1 << 53) - 1)) | (1 << 52) | r.below(2)
                    d = r.choice([0, 1, -1, r.rng(-2**20, 2**20)]) if s_ > 22 else 0
                    v = (M << s_) + (1 << (s_ - 1)) + d
                    v = v if (lo == 0 or r.below(2)) else -v
                    vals.append(min(hi, max(lo, v)))
                # just below 2^N: where `n as f64` rounds up to the power of two (the special branch of the conversion)
                for j in range(0, hi.bit_length() - 40):
                    for d in (-1, 0, 1):
                        v = (1 << hi.bit_length()) - (1 << j) + d
                        vals.append(min(hi, max(lo, v)))
                        if lo < 0:
                            vals.append(min(hi, max(lo, -v)))
        for v in vals:
            c.add('convert.impl_From_%s_for_TwoFloat.from %d' % (ty, v), kind='from', ty=ty, v=v)
        # try_from near the boundaries and random
        for _ in range(n):
            k = r.below(6)
            if k < 3:
                base = r.choice([lo, hi, 0, -1, hi + 1, lo - 1])
                hh = fp.rn(Fr(base)); ll = fp.rn(Fr(base) - Fr(hh))
                u = fp.ulp(ll) if ll != 0 else Fr(1, 2 ** r.rng(1, 60))
                d = r.choice([0, 1, -1, 2, -2]) * u * r.choice([1, Fr(1, 2), 2 ** r.below(8)])
                ex = Fr(base) + d
                hh = fp.rn(ex); ll = fp.rn(ex - Fr(hh))
                t = (hh, ll) if fp.is_valid(hh, ll) else (hh, 0.0)
            elif k == 3:
                t = fp.any_tf(r)
            else:
                e = r.rng(-5, hi.bit_length() + 2)
                t = tf_in(r, e, e + 1)
            for ref in ('TwoFloat', 'rTwoFloat'):
                c.add('convert.impl_TryFrom_%s_for_%s.try_from %s' % (ref, ty, w2(t)), kind='try', ty=ty, t=t)
            # the num_traits routes must agree with TryFrom / From (they forward to them)
            c.add('num_integration.impl_ToPrimitive_for_TwoFloat.to_%s %s' % (ty, w2(t)), kind='toprim', ty=ty, t=t)
            # the same call through the trait (a deleted override silently falls back to num_traits' provided body) and through
            # the integer-typed NumCast route, observed on the implementation only
            c.add('tr.ToPrimitive.to_%s %s' % (ty, w2(t)), kind='toprim', ty=ty, t=t, impl_only=True)
            if ty in ('i64', 'u64', 'i128', 'u128', 'i32', 'u8'):
                c.add('tr.NumCast.%s %s' % (ty, w2(t)), kind='toprim', ty=ty, t=t, impl_only=True)
            if ty in ('i64', 'u64'):
                c.add('num_integration.impl_ToPrimitive_for_TwoFloat.to_%ssize %s' % (ty[0], w2(t)), kind='toprim', ty=ty, t=t)
        for v in vals[:max(50, n)]:
            c.add('num_integration.impl_FromPrimitive_for_TwoFloat.from_%s %d' % (ty, v), kind='from', ty=ty, v=v)
            c.add('tr.FromPrimitive.from_%s %d' % (ty, v), kind='from', ty=ty, v=v, impl_only=True)
        # the generic <TwoFloat as NumCast>::from(n) (hand model Hand.numCastFrom): it must agree with From<int>; its only own logic is the
        # 2^53 switch between the f64 route and the 128-bit integer routes, so the neighbourhood of +-2^53 is enumerated
        nc = list(vals[:max(50, n)])
        if ty in BIG:
            nc += [sg * ((1 << 53) + d) for sg in (1, -1) for d in range(-3, 6)] + [sg * ((1 << k) + d) for sg in (1, -1) for k in (52, 54, 63, 64, 106, 107, 127) for d in (-1, 0, 1)]
        for v in nc:
            if lo <= v <= hi:
                c.add('numcast.%s %d' % (ty, v), kind='numcast_int', ty=ty, v=v)
                if ty in ('i64', 'u64'):
                    c.add('numcast.%ssize %d' % (ty[0], v), kind='numcast_int', ty=ty, v=v)
    import struct as _st
    fl = [0.0, -0.0, 1.0, -1.0, -0.5, 0.5, 2.0**53, -2.0**53, 2.0**53 - 1, 2.0**53 + 2, -(2.0**53) - 2, 2.0**52 + 0.5, 2.0**63, -2.0**63, 2.0**64,
          2.0**127, -2.0**127, -2.0**127 * (1 + 2.0**-52), 2.0**127 * (1 - 2.0**-53), 2.0**128, 2.0**128 * (1 - 2.0**-53), 2.0**129, 1e300, -1e300,
          float('inf'), float('-inf'), float('nan'), 5e-324, -5e-324, 2.2250738585072014e-308]
    for x in fl + [fp.any_f64(r) for _ in range(n)]:
        c.add('numcast.f64 %s' % hx(x), kind='numcast_f64', x=x)
        c.add('tr.FromPrimitive.from_f64 %s' % hx(x), kind='numcast_f64', x=x, impl_only=True)
    f32s = [0x00000000, 0x80000000, 0x3f800000, 0xbf800000, 0x5a000000, 0xda000000, 0x59ffffff, 0x5a000001, 0x7e800000, 0xfe800000, 0xff000000, 0x7f000000,
            0x7f7fffff, 0xff7fffff, 0x7f800000, 0xff800000, 0x7fc00000, 0x00000001, 0x80000001, 0x5f000000, 0xdf000000]
    for b in f32s + [r.next() & 0xffffffff for _ in range(n)]:
        c.add('numcast.f32 %08x' % b, kind='numcast_f64', x=_st.unpack('<f', _st.pack('<I', b))[0])
        c.add('tr.FromPrimitive.from_f32 %08x' % b, kind='numcast_f64', x=_st.unpack('<f', _st.pack('<I', b))[0], impl_only=True)
    for _ in range(n):
        t = fp.any_tf(r)
        c.add('convert.impl_From_TwoFloat_for_f64.from %s' % w2(t), kind='tof64', t=t)
        c.add('convert.impl_From_TwoFloat_for_f32.from %s' % w2(t), kind='tof32', t=t)
        x = fp.any_f64(r)
        c.add('convert.impl_From_f64_for_TwoFloat.from %s' % hx(x), kind='fromf64', x=x)
        # high word exactly half-way between two adjacent f32 values (25 significant bits, the last one set), with a low word of
        # either sign: f32::from(x) is the high word rounded to f32 (ties to even), whatever the low word says
        e = r.rng(-120, 120)
        mid = math.ldexp(float((r.rng(2**23, 2**24 - 1) << 1) | 1), e - 24) * r.choice([1.0, -1.0])
        lo_ = math.ldexp(float(r.rng(1, 2**20)), math.frexp(mid)[1] - 54 - r.rng(21, 80)) * r.choice([1.0, -1.0, 0.0])
        for ref in ('TwoFloat', 'rTwoFloat'):
            if fp.is_valid(mid, lo_):
                c.add('convert.impl_From_%s_for_f32.from %s' % (ref, w2((mid, lo_))), kind='tof32', t=(mid, lo_))
    return c

def chk_C09(c, ans):
    import struct
    out = []
    for i, (ln, m, a) in enumerate(zip(c.lines, c.meta, ans)):
        if a in ('PANIC', 'bad-op'):
            out.append(fail(i, 'no-panic', a)); continue
        k = m['kind']
        if k == 'from':
            h, l = words(a)
            v = m['v']
            if not fp.is_valid(h, l):
                out.append(fail(i, 'from_int_valid', '%s -> (%s,%s) invalid' % (v, hx(h), hx(l)))); continue
            R = V(h, l)
            if abs(v).bit_length() - (((abs(v) & -abs(v)).bit_length() - 1) if v else 0) <= 106:
                if R != v:
                    out.append(fail(i, 'from_int_exact', '%s -> %s' % (v, R)))
            elif abs(R - v) > Fr(abs(v), 2 ** 106):
                out.append(fail(i, 'from_int128_close', '%s' % v))
            m['res'] = (h, l)
        elif k == 'numcast_int':
            # <TwoFloat as NumCast>::from(n) is Some(TwoFloat::from(n)): valid, exact up to 106 significant bits, within 2^-106|n| beyond
            if not a.startswith('Some('):
                out.append(fail(i, 'numcast_from_int', 'n=%d got %s' % (m['v'], a))); continue
            h, l = words(a[5:-1])
            v = m['v']
            if not fp.is_valid(h, l):
                out.append(fail(i, 'numcast_from_int_valid', '%s -> (%s,%s) invalid' % (v, hx(h), hx(l)))); continue
            R = V(h, l)
            if abs(v).bit_length() - (((abs(v) & -abs(v)).bit_length() - 1) if v else 0) <= 106:
                if R != v:
                    out.append(fail(i, 'numcast_from_int_exact', '<TwoFloat as NumCast>::from(%s) has the value %s (TwoFloat::from(n) is exact)' % (v, R)))
            elif abs(R - v) > Fr(abs(v), 2 ** 106):
                out.append(fail(i, 'numcast_from_int128_close', '%s' % v))
        elif k == 'numcast_f64':
            # a float argument: the float itself with a zero low word (NaN stays NaN, infinities stay infinite)
            x = m['x']
            if not a.startswith('Some('):
                out.append(fail(i, 'numcast_from_float', 'x=%s got %s' % (hx(x), a))); continue
            h, l = words(a[5:-1])
            if x != x:
                if h == h:
                    out.append(fail(i, 'numcast_from_float', 'NaN -> %s' % a))
            elif not (h == x and l == 0.0 and (x != 0.0 or math.copysign(1.0, h) == math.copysign(1.0, x))):
                out.append(fail(i, 'numcast_from_float', 'x=%s got %s' % (hx(x), a)))
        elif k == 'try':
            t = m['t']
            lo, hi = fp.INT_RANGES[m['ty']]
            if not fp.is_valid(*t):
                if not finite(*t) and a != 'Err' and (t[0] != t[0] or math.isinf(t[0])):
                    out.append(fail(i, 'try_from_nonfinite', 'got %s' % a))
                continue
            tv = int(V(*t))
            want = 'Ok(%d)' % tv if lo <= tv <= hi else 'Err'
            if a != want:
                out.append(fail(i, 'try_from_ok_iff', 'x=(%s,%s) got %s want %s' % (hx(t[0]), hx(t[1]), a, want)))
        elif k == 'toprim':
            t = m['t']
            lo, hi = fp.INT_RANGES[m['ty']]
            if not fp.is_valid(*t):
                continue
            tv = int(V(*t))
            want = 'Some(%d)' % tv if lo <= tv <= hi else 'None'
            if a != want:
                out.append(fail(i, 'to_primitive_eq_try_from', 'x=(%s,%s) got %s want %s' % (hx(t[0]), hx(t[1]), a, want)))
        elif k == 'tof64':
            if a != hx(m['t'][0]):
                out.append(fail(i, 'to_f64_hi', a))
        elif k == 'tof32':
            x = m['t'][0]
            try:
                want = fp.f32hx(x) if x == x else '7fc00000'
            except OverflowError:
                want = '7f800000' if x > 0 else 'ff800000'
            if a != want:
                out.append(fail(i, 'to_f32', 'got %s want %s' % (a, want)))
        elif k == 'fromf64':
            if a != '%s %s' % (hx(m['x']), hx(0.0)):
                out.append(fail(i, 'from_f64_exact', a))
    return out

def roundtrip_C09(c, ans):
    """second round: T::try_from(TwoFloat::from(n)) == Ok(n) when n is exactly representable"""
    c2 = Cases()
    for ln, m, a in zip(c.lines, c.meta, ans):
        if m['kind'] == 'from' and 'res' in m:
            h, l = m['res']
            if V(h, l) == m['v']:
                c2.add('convert.impl_TryFrom_TwoFloat_for_%s.try_from %s' % (m['ty'], w2((h, l))), v=m['v'])
    return c2

def chk_roundtrip_C09(c2, ans):
    out = []
    for i, (ln, m, a) in enumerate(zip(c2.lines, c2.meta, ans)):
        if a != 'Ok(%d)' % m['v']:
            out.append(fail(i, 'int_roundtrip', 'n=%d got %s' % (m['v'], a)))
    return out

# ================================================================================================ registry

ARITH = r'^arithmetic\.impl_(%s)'
PROPS = {
    'C02': dict(roots=[r'^TwoFloat\.new_(add|sub|mul|div)$', r'^TwoFloat\.from_f64$', r'^convert\.impl_From_f64_for_TwoFloat'],
                gen=gen_C02, chk=chk_C02, n_quick=4000, n_thorough=60000),
    'C03': dict(roots=[ARITH % 'Add|Sub|AddAssign|SubAssign'], extra_roots=[r'^iter\.impl_Sum'],
                gen=gen_C03, chk=chk_C03, n_quick=3000, n_thorough=50000),
    'C04': dict(roots=[ARITH % 'Mul|MulAssign'], gen=gen_C04, chk=chk_C04, n_quick=1500, n_thorough=20000),
    'C05': dict(roots=[ARITH % 'Div|DivAssign', r'^TwoFloat\.recip$'], gen=gen_C05, chk=chk_C05, n_quick=1500, n_thorough=20000),
    'C06': dict(roots=[r'^base\.impl_Partial(Eq|Ord)', r'^TwoFloat\.(min|max|abs|is_sign_negative|is_sign_positive|signum|copysign|is_valid)$'],
                gen=gen_C06, chk=chk_C06, n_quick=1500, n_thorough=30000),
    'C07': dict(roots=[r'^base\.no_overlap$', r'^TwoFloat\.is_valid$', r'^convert\.impl_TryFrom_(tup_f64_f64|arr2_f64)_for_TwoFloat',
                       r'^convert\.impl_From_r?TwoFloat_for_(tup_f64_f64|arr2_f64)'],
                gen=gen_C07, chk=chk_C07, n_quick=600, n_thorough=20000, gen_tier=True),
    'C08': dict(roots=[r'^TwoFloat\.(floor|ceil|trunc|round|fract)$', r'^num_integration\.impl_Float(Core)?_for_TwoFloat\.(floor|ceil|trunc|round|fract)$'],
                gen=gen_C08, chk=chk_C08, n_quick=6000, n_thorough=100000),
    'C09': dict(roots=[r'^convert\.impl_(From|TryFrom)_', r'^num_integration\.impl_(FromPrimitive|ToPrimitive)_for_TwoFloat'],
                gen=gen_C09, chk=chk_C09, n_quick=300, n_thorough=4000, gen_tier=True,
                hand_sources=['src/num_integration.rs#impl num_traits::NumCast for TwoFloat'],
                followups=[(roundtrip_C09, chk_roundtrip_C09)]),
    'C19': dict(roots=[ARITH % 'Rem|RemAssign', r'^TwoFloat\.(div_euclid|rem_euclid)$'], gen=gen_C19, chk=chk_C19, n_quick=1500, n_thorough=30000),
}

# ================================================================================================ C01

_ENTS = None
def all_entries():
    global _ENTS
    if _ENTS is None:
        import json
        from . import pipeline
        _ENTS = json.load(open(pipeline.shared()['entrypoints']))
    return _ENTS

TF_RET = ('tf', 'tfpair', 'opttf', 'restf')
def c01_ops():
    return [e for e in all_entries() if e['ret'] in TF_RET and all(k in ('tf', 'f64', 'f32', 'pair', 'arr2') or k in fp.INT_RANGES for k in e['args'])]

def c01_arg(kind, r, pool):
    if kind == 'tf':
        if pool and r.below(3) == 0:
            return list(map(hx, r.choice(pool)))
        return list(map(hx, tf_in(r, -1000, 1000)))
    if kind == 'f64':
        if pool and r.below(4) == 0:
            return [hx(r.choice(pool)[0])]
        return [hx(f_in(r, -1000, 1000))]
    if kind in ('pair', 'arr2'):
        return list(map(hx, tf_in(r, -1000, 1000)))
    if kind == 'f32':
        import struct
        x = f_in(r, -120, 120)
        return [fp.f32hx(x)]
    return [str(fp.any_int(r, kind))]

def gen_C01(r, n, pool=None):
    c = Cases()
    ops = c01_ops()
    per = max(2, n // max(1, len(ops)))
    for e in ops:
        if e.get('const'):
            c.add(e['name'], op=e['name'])
            continue
        for _ in range(per):
            w = [e['name']]
            for k in e['args']:
                w += c01_arg(k, r, pool)
            ln_ = ' '.join(w)
            if c01_in_domain(ln_):
                c.add(ln_, op=e['name'])
    if pool is None:
        # the adversarial operand strata of the operator / constructor / rounding properties (cancellation at every depth,
        # ties, short significands, power-of-two divisors, integer-valued words, wide integers): here only the invariant is checked
        for g, k in ((gen_C02, 40), (gen_C03, 12), (gen_C04, 40), (gen_C05, 40), (gen_C08, 20), (gen_C19, 40)):
            sub = g(r, max(20, n // k))
            for ln in sub.lines:
                if c01_in_domain(ln):
                    c.add(ln, op=ln.split()[0])
        sub = gen_C09(r, max(10, n // 400))
        for ln, m in zip(sub.lines, sub.meta):
            if m['kind'] == 'from':
                if m.get('impl_only'):
                    c.add(ln, op=ln.split()[0], impl_only=True)
                else:
                    c.add(ln, op=ln.split()[0])
        # results at the subnormal edge: operands whose square / cube / 4th power / product has magnitude 2^-1080 .. 2^-940, single-word
        # operands (low word exactly 0) included — where an un-renormalised error term rounds onto a half-ulp tie
        def edge_tf(lo_e, hi_e):
            e = r.rng(lo_e, hi_e)
            if r.below(2):
                return (fp.mant_exp(r, e) * r.choice([1.0, -1.0]), 0.0)
            return tf_in(r, e, e + 1)
        bands = {2: (-520, -478), 3: (-350, -318), 4: (-262, -238), 5: (-210, -190)}      # |x|^n between about 2^-1040 and 2^-955
        for e in ops:
            a = e.get('args') or []
            if e.get('const') or not a or a[0] != 'tf':
                continue
            for _ in range(max(150, per) if (len(a) == 2 and a[1] in fp.INT_RANGES) else max(3, per // 2)):
                if len(a) == 2 and a[1] in fp.INT_RANGES:
                    nn = r.choice([2, 2, 2, 2, 3, 3, 4, 5])
                    ln_ = '%s %s %d' % (e['name'], w2(edge_tf(*bands[nn])), nn)
                elif a == ['tf']:
                    ln_ = '%s %s' % (e['name'], w2(edge_tf(*bands[r.choice([2, 2, 3])])))
                elif a == ['tf', 'tf']:
                    x = edge_tf(-560, -460)
                    e2 = r.rng(-1080, -940) - (math.frexp(x[0])[1] - 1)
                    ln_ = '%s %s %s' % (e['name'], w2(x), w2(edge_tf(max(-1000, e2), max(-1000, e2) + 1)))
                elif a == ['tf', 'f64']:
                    x = edge_tf(-560, -460)
                    e2 = r.rng(-1080, -940) - (math.frexp(x[0])[1] - 1)
                    ln_ = '%s %s %s' % (e['name'], w2(x), hx(fp.mant_exp(r, max(-1000, e2))))
                else:
                    continue
                if c01_in_domain(ln_):
                    c.add(ln_, op=e['name'])
        # checked construction from arbitrary word pairs (threshold grid of C07): whatever is accepted must be valid
        sub = gen_C07(r, max(50, n // 40))
        for ln, m in zip(sub.lines, sub.meta):
            if m['kind'] == 'try':
                c.add(ln, op=ln.split()[0])
    return c

def c01_in_domain(line):
    """operands valid with high words 0 or in [2^-1000, 2^1000]; error-free product/quotient only when it is 0 or >= 2^-960"""
    w = line.split()
    op, args = w[0], w[1:]
    xs = []
    for a in args:
        if len(a) == 16 and all(ch in '0123456789abcdef' for ch in a):
            xs.append(unhx(a))
        elif len(a) != 8:
            try:
                int(a)
            except ValueError:
                return False
    lo_b, hi_b = Fr(2) ** -1000, Fr(2) ** 1000
    for x in xs:
        if not fp.isfin(x):
            return False
    f_only = op.startswith('TwoFloat.new_') or op.endswith('from_f64')
    if f_only:
        for x in xs:
            if x != 0 and not (lo_b <= abs(Fr(x)) <= hi_b):
                return False
        if op in ('TwoFloat.new_mul', 'TwoFloat.new_div') and len(xs) == 2:
            if op == 'TwoFloat.new_div' and xs[1] == 0:
                return False
            q = Fr(xs[0]) * Fr(xs[1]) if op == 'TwoFloat.new_mul' else Fr(xs[0]) / Fr(xs[1])
            if q != 0 and abs(q) < Fr(2) ** -960:
                return False
    return True

def results_of(a, ret='tf'):
    if a in ('PANIC', 'bad-op', 'Err', 'None'):
        return []
    w = a.replace('Some(', '').replace('Ok(', '').replace(')', '').split()
    return [(unhx(w[i]), unhx(w[i + 1])) for i in range(0, len(w) - 1, 2)]

def chk_C01(c, ans):
    out = []
    for i, (ln, m, a) in enumerate(zip(c.lines, c.meta, ans)):
        if a == 'bad-op':
            out.append(fail(i, 'no-panic', a)); continue
        if a == 'PANIC':
            # panics on valid operands are claimed by C13-C18 for their families; here only the invariant
            continue
        for (h, l) in results_of(a):
            if not inv_ok(h, l):
                out.append(fail(i, 'invariant', 'result (%s, %s): finite high word with an overlapping/non-finite low word' % (hx(h), hx(l))))
    return out

def chain_C01(c, ans):
    """feed valid results back in: next round of a random program"""
    pool = []
    for a in ans:
        for (h, l) in results_of(a):
            if fp.is_valid(h, l) and (h == 0 or Fr(2) ** -1000 <= abs(Fr(h)) <= Fr(2) ** 1000):
                pool.append((h, l))
    r = fp.Rng(len(pool) * 7919 + 13)
    if not pool:
        return Cases()
    pool = [pool[r.below(len(pool))] for _ in range(min(len(pool), 4000))]
    c2 = gen_C01(r, max(600, len(c.lines) // 2), pool)
    return c2

PROPS['C01'] = dict(roots=[r'.'], gen=gen_C01, chk=chk_C01, n_quick=12000, n_thorough=150000,
                    followups=[(chain_C01, chk_C01, True), (chain_C01, chk_C01, True), (chain_C01, chk_C01, True)])

# ================================================================================================ C10

NUMT = 'num_integration.impl_%s_for_TwoFloat.%s'
def c10_trait_pairs():
    """(trait entry point, inherent/constant counterpart) with identical argument kinds"""
    ents = {e['name']: e for e in all_entries()}
    pairs = []
    for name, e in ents.items():
        m = re.match(r'num_integration\.impl_(Float|FloatCore|Signed)_for_TwoFloat\.(\w+)$', name)
        if m:
            meth = m.group(2)
            inh = {'is_positive': 'is_sign_positive', 'is_negative': 'is_sign_negative'}.get(meth, meth) if m.group(1) == 'Signed' else meth
            cand = 'TwoFloat.' + inh
            if cand in ents and ents[cand]['args'] == e['args'] and ents[cand]['ret'] == e['ret']:
                pairs.append((name, cand))
            const = {'infinity': 'INFINITY', 'neg_infinity': 'NEG_INFINITY', 'nan': 'NAN', 'min_value': 'MIN', 'max_value': 'MAX',
                     'min_positive_value': 'MIN_POSITIVE', 'epsilon': 'EPSILON'}.get(meth)
            if const and not e['args']:
                pairs.append((name, 'TwoFloat.' + const))
        m = re.match(r'num_integration\.impl_FloatConst_for_TwoFloat\.(\w+)$', name)
        if m and ('consts.' + m.group(1)) in ents:
            pairs.append((name, 'consts.' + m.group(1)))
        m = re.match(r'num_integration\.impl_Bounded_for_TwoFloat\.(min|max)_value$', name)
        if m:
            pairs.append((name, 'TwoFloat.' + m.group(1).upper()))
        m = re.match(r'num_integration\.impl_Inv(_for_rTwoFloat|_for_TwoFloat)\.inv$', name)
        if m:
            pairs.append((name, 'TwoFloat.recip'))
        m = re.match(r'num_integration\.impl_Pow_r?(i8|i16|i32|u8|u16)_for_r?TwoFloat\.pow$', name)
        if m:
            pairs.append((name, 'TwoFloat.powi'))
        m = re.match(r'num_integration\.impl_Pow_r?(TwoFloat)_for_r?TwoFloat\.pow$', name)
        if m:
            pairs.append((name, 'TwoFloat.powf'))
    return pairs, ents

def gen_C10(r, n):
    c = Cases()
    pairs, ents = c10_trait_pairs()
    gid = 0
    def operand():
        k = r.below(12)
        if k == 0:
            return fp.any_tf(r)          # non-finite / NaN-containing values reachable through the API
        if k == 1:
            return (r.choice([0.0, -0.0]), r.choice([0.0, -0.0]))
        if k == 2:
            return (float(r.rng(-8, 8)), 0.0)
        return tf_in(r, -300, 300)
    for k_ in ('TAU', 'LOG10_2', 'LOG2_10'):     # FloatConst methods that have provided defaults in num_traits
        gid += 1
        c.add('tr.FloatConst.%s' % k_, group=(gid, 'trait', 'FloatConst::' + k_), role='form', impl_only=True)
        c.add('consts.%s' % k_, group=(gid, 'trait', 'FloatConst::' + k_), role='form')
    MAXF = 1.7976931348623157e308
    fixed = [((MAXF, 0.0), (-3 * 2.0 ** 970, 0.0)), ((MAXF, 0.0), (3 * 2.0 ** 970, 0.0)),     # |hi| = f64::MAX: spurious overflow inside 2Sum (known finding)
             ((-3 * 2.0 ** 970, 0.0), (MAXF, 0.0)), ((3 * 2.0 ** 970, 0.0), (-MAXF, 0.0)),      # mirrored: the f64 operand of the mixed forms is MAX
             ((7 * 2.0 ** 970, 0.0), (-MAXF, 0.0)), ((-MAXF, 0.0), (7 * 2.0 ** 970, 0.0))]
    for it in range(n + len(fixed)):
        a, b = fixed[it - n] if it >= n else (operand(), operand())
        if it < n and r.below(5) == 0:
            b = cancel_partner(r, a) if fp.is_valid(*a) else b
        f = b[0] if it >= n else r.choice([b[0], fp.any_f64(r), float(r.rng(-4, 4))])
        gid += 1
        for tr in ('Add', 'Sub', 'Mul', 'Div', 'Rem'):
            # 4 reference/value forms x 3 pairings, plus compound assignment
            for (L_, R_, args, pg) in (('TwoFloat', 'TwoFloat', '%s %s' % (w2(a), w2(b)), 'tt'),
                                       ('TwoFloat', 'f64', '%s %s' % (w2(a), hx(f)), 'tf'),
                                       ('f64', 'TwoFloat', '%s %s' % (hx(f), w2(a)), 'ft')):
                for lref in ('', 'r'):
                    for rref in ('', 'r'):
                        c.add('%s %s' % (opname(tr, lref + L_, rref + R_), args), group=(gid, tr, pg), role='form')
                if L_ == 'TwoFloat':
                    for rref in ('', 'r'):
                        c.add('%s %s' % (asgname(tr, rref + R_), args), group=(gid, tr, pg), role='form')
        c.add('%s %s' % (NEG, w2(a)), group=(gid, 'neg', 'a'), role='form')
        c.add('%s %s' % (A + 'impl_Neg_for_TwoFloat.neg', w2(a)), group=(gid, 'neg', 'a'), role='form')
        # commutativity, bit for bit
        c.add('%s %s %s' % (TT('Add'), w2(b), w2(a)), group=(gid, 'Add', 'tt'), role='comm')
        c.add('%s %s %s' % (FT('Add'), hx(f), w2(a)), group=(gid, 'Add', 'tf'), role='comm')
        c.add('%s %s %s' % (FT('Mul'), hx(f), w2(a)), group=(gid, 'Mul', 'tf'), role='comm')
        # material for the second round
        c.add('%s %s' % (NEG, w2(b)), group=(gid, 'negb', ''), role='aux', a=a, b=b)
        c.add('%s %s %s' % (TT('Sub'), w2(b), w2(a)), group=(gid, 'b-a', ''), role='aux', a=a, b=b)
        # iterator sum vs explicit left fold
        k = r.rng(0, 5)
        xs = [operand() for _ in range(k)]
        c.add('sum_tf %d %s' % (k, ' '.join(w2(x) for x in xs)), group=(gid, 'sum', 'tf'), role='form')
        c.add('fold_tf %d %s' % (k, ' '.join(w2(x) for x in xs)), group=(gid, 'sum', 'tf'), role='form')
        fs = [fp.any_f64(r) for _ in range(k)]
        c.add('sum_f64 %d %s' % (k, ' '.join(hx(x) for x in fs)), group=(gid, 'sum', 'f'), role='form')
        c.add('fold_f64 %d %s' % (k, ' '.join(hx(x) for x in fs)), group=(gid, 'sum', 'f'), role='form')
        # trait entry points vs inherent counterparts
        for (tn, inh) in pairs:
            if r.below(6):
                continue
            e = ents[tn]
            w = []
            for kk in e['args']:
                if kk == 'tf':
                    w += [w2(r.choice([a, b]))]
                elif kk == 'f64':
                    w += [hx(f)]
                else:
                    w += [str(fp.any_int(r, kk) if r.below(3) else r.rng(max(-20, fp.INT_RANGES[kk][0]), 20))]
            gid += 1
            c.add('%s %s' % (tn, ' '.join(w)), group=(gid, 'trait', tn), role='form')
            c.add('%s %s' % (inh, ' '.join(w)), group=(gid, 'trait', tn), role='form')
        # the same trait methods called through the trait object path regardless of overrides (provided defaults)
        for tr_, meth, arity in [('FloatCore', m_, 2) for m_ in ('min', 'max')] + [('Float', m_, 2) for m_ in ('min', 'max', 'copysign')] + \
                [('FloatCore', m_, 1) for m_ in ('recip', 'to_degrees', 'to_radians', 'abs', 'signum', 'floor', 'ceil', 'round', 'trunc', 'fract', 'is_sign_positive', 'is_sign_negative')] + \
                [('Float', m_, 1) for m_ in ('to_degrees', 'to_radians', 'abs', 'signum', 'recip')]:
            if r.below(3):
                continue
            gid += 1
            x, y = r.choice([a, b, fp.any_tf(r)]), r.choice([a, b, fp.any_tf(r)])
            args = w2(x) if arity == 1 else '%s %s' % (w2(x), w2(y))
            c.add('tr.%s.%s %s' % (tr_, meth, args), group=(gid, 'trait', tr_ + '::' + meth), role='form', impl_only=True)
            c.add('TwoFloat.%s %s' % (meth, args), group=(gid, 'trait', tr_ + '::' + meth), role='form')
        gid += 1
    return c

MAX_WORDS = ('7fefffffffffffff', 'ffefffffffffffff')
def has_max_word(line):
    return any(w in MAX_WORDS for w in line.split()[1:])

def only_zero_sign(x, y):
    """two answers differ only in the sign bit of words that are zero"""
    wx, wy = x.split(), y.split()
    if len(wx) != len(wy):
        return False
    for p, q in zip(wx, wy):
        if p != q:
            if not ({p, q} == {'0000000000000000', '8000000000000000'}):
                return False
    return True

def chk_C10(c, ans):
    out = []
    groups = {}
    for i, (m, a) in enumerate(zip(c.meta, ans)):
        if m['role'] in ('form', 'comm'):
            groups.setdefault(m['group'], []).append(i)
        m['ans'] = a
    for g, idxs in groups.items():
        ref = ans[idxs[0]]
        for i in idxs[1:]:
            if ans[i] != ref:
                clause = {'trait': 'trait_vs_inherent', 'sum': 'sum_eq_fold', 'neg': 'neg_forms'}.get(g[1], 'forms_%s_%s' % (g[1], g[2]))
                f_ = fail(i, clause, '%s gives %s but %s gives %s' % (c.lines[idxs[0]].split()[0], ref, c.lines[i].split()[0], ans[i]))
                if c.meta[i]['role'] == 'comm':
                    f_['clause'] = 'commutative_%s_%s' % (g[1], g[2])
                    if has_max_word(c.lines[i]):
                        f_['key'] = 'commutative_add:max-spurious-overflow'
                out.append(f_)
    return out

def round2_C10(c, ans):
    c2 = Cases()
    by = {}
    for ln, m, a in zip(c.lines, c.meta, ans):
        by.setdefault(m['group'][0], {})[(m['group'][1], m['group'][2], ln.split()[0])] = (ln, a, m)
    for gid, d in by.items():
        negb = next((v for k, v in d.items() if k[0] == 'negb'), None)
        bma = next((v for k, v in d.items() if k[0] == 'b-a'), None)
        if not negb or not bma or negb[1] in ('PANIC', 'bad-op'):
            continue
        a, b = negb[2]['a'], negb[2]['b']
        amb = d.get(('Sub', 'tt', TT('Sub')))
        ab = d.get(('Mul', 'tt', TT('Mul')))
        nega = d.get(('neg', 'a', NEG))
        if not (amb and ab and nega):
            continue
        nb = words(negb[1]); na = words(nega[1])
        c2.add('%s %s %s' % (TT('Add'), w2(a), w2(nb)), want=amb[1], clause='sub_eq_add_neg')
        c2.add('%s %s' % (NEG, w2(words(bma[1]))), want=amb[1], clause='neg_sub_swap', maxw=has_max_word('x ' + w2(a) + ' ' + w2(b)))
        c2.add('%s %s %s' % (TT('Mul'), w2(na), w2(b)), want=None, other=w2(words(ab[1])), clause='neg_mul')
        c2.add('%s %s' % (NEG, w2(na)), want=w2(a), clause='neg_neg')
        # mul_add(a, b) == self*a + b
        c2.add('%s %s %s %s' % (NUMT % ('Float', 'mul_add'), w2(a), w2(a), w2(b)), want=None, clause='mul_add', ref=('%s %s %s' % (TT('Mul'), w2(a), w2(a)), b))
    return c2

def chk_round2_C10(c2, ans):
    out = []
    for i, (ln, m, a) in enumerate(zip(c2.lines, c2.meta, ans)):
        cl = m['clause']
        if cl == 'neg_mul':
            m['got'] = a
            continue
        if cl == 'mul_add':
            continue
        if m['want'] is not None and a != m['want']:
            if only_zero_sign(a, m['want']):
                out.append(dict(fail(i, cl, 'differs in the sign of a zero word: %s vs %s' % (a, m['want'])), key=cl + ':zero-sign'))
            elif m.get('maxw') and cl in ('neg_sub_swap',):
                out.append(dict(fail(i, cl, 'spurious overflow of 2Sum at |hi| = f64::MAX: %s vs %s' % (a, m['want'])), key=cl + ':max-spurious-overflow'))
            else:
                out.append(fail(i, cl, 'got %s want %s' % (a, m['want'])))
    return out

def round3_C10(c2, ans):
    c3 = Cases()
    for ln, m, a in zip(c2.lines, c2.meta, ans):
        if m['clause'] == 'neg_mul' and a not in ('PANIC', 'bad-op'):
            c3.add('%s %s' % (NEG, m['other']), want=a, clause='neg_mul')
        if m['clause'] == 'mul_add' and a not in ('PANIC', 'bad-op'):
            c3.add(m['ref'][0], want=a, clause='mul_add_stage', b=m['ref'][1])
    return c3

def chk_round3_C10(c3, ans):
    out = []
    for i, (ln, m, a) in enumerate(zip(c3.lines, c3.meta, ans)):
        if m['clause'] == 'neg_mul' and a != m['want']:
            if only_zero_sign(a, m['want']):
                out.append(dict(fail(i, 'neg_mul', 'differs in the sign of a zero word: -(a*b)=%s vs (-a)*b=%s' % (a, m['want'])), key='neg_mul:zero-sign'))
            else:
                out.append(fail(i, 'neg_mul', '-(a*b)=%s but (-a)*b=%s' % (a, m['want'])))
    return out

def round4_C10(c3, ans):
    c4 = Cases()
    for ln, m, a in zip(c3.lines, c3.meta, ans):
        if m['clause'] == 'mul_add_stage' and a not in ('PANIC', 'bad-op'):
            c4.add('%s %s %s' % (TT('Add'), w2(words(a)), w2(m['b'])), want=m['want'], clause='mul_add')
    return c4

def chk_round4_C10(c4, ans):
    return [fail(i, 'mul_add', 'self*a+b = %s but mul_add = %s' % (a, m['want'])) for i, (m, a) in enumerate(zip(c4.meta, ans)) if a != m['want']]

PROPS['C10'] = dict(roots=[r'^arithmetic\.impl_', r'^num_integration\.impl_', r'^iter\.'], extra_roots=[r'^iter\.impl_Sum'],
                    gen=gen_C10, chk=chk_C10, n_quick=120, n_thorough=5000,
                    followups=[(round2_C10, chk_round2_C10, True), (round3_C10, chk_round3_C10, True), (round4_C10, chk_round4_C10, True)])

# ================================================================================================ C11

def gen_C11(r, n):
    c = Cases()
    ents = [e for e in all_entries()]
    per = max(2, n // len(ents))
    from . import corr
    for e in ents:
        if e.get('const'):
            c.add(e['name'], kind='const'); continue
        for _ in range(per):
            c.add(corr.gen_case(e, r, valid_only=(r.below(5) > 0)), kind='generic')
    # ties and grid points: half-integers, quarter-integers, integers and powers of two (with and without a tiny low word) —
    # where two cfg-selected rounding helpers (round half away / half even, floor vs trunc …) would part company
    def special_q():
        q = Fr(r.rng(-4200, 4200), r.choice([1, 2, 2, 4, 8]))
        if r.below(4) == 0:
            q *= Fr(2) ** r.rng(-12, 12)
        return q
    def special_tf():
        q = special_q()
        if q != 0 and r.below(2):
            q += abs(q) * Fr(r.choice([1, -1]), 2 ** r.rng(60, 110))
        return tf_of_fr(q)
    FIXED_GRID = [Fr(k, 2) for k in range(-17, 18)] + [Fr(k, 4) for k in (-7, -5, -3, -1, 1, 3, 5, 7)] + \
                 [Fr(s_ * (2 ** j * 2 + 1), 2) for j in (3, 5, 8, 9) for s_ in (1, -1)] + [Fr(s_ * 2001, 2) for s_ in (1, -1)]
    for e in ents:
        a = e.get('args') or []
        if e.get('const') or not a or any(k not in ('tf', 'f64') for k in a):
            continue
        if a == ['tf']:
            for q in FIXED_GRID:          # every unary function at every small half- and quarter-integer (deterministic)
                c.add('%s %s' % (e['name'], w2(tf_of_fr(q))), kind='grid')
        for _ in range(max(4, per)):
            ws = [e['name']]
            for k in a:
                ws.append(w2(special_tf()) if k == 'tf' else hx(float(special_q())))
            c.add(' '.join(ws), kind='grid')
    # fma-focused: the only cfg-selected primitive.  2Prod and the operator kernels call fma(a, b, c) with
    # c = -RN(ab) (error term: exact, subnormal, double-rounding prone) and c = a previous error term.
    for _ in range(n):
        k = r.below(6)
        if k == 0:
            ea = r.rng(-1074, 1023); eb = max(-1074, min(1023, r.rng(-1130, -960) - ea))   # product in / near the subnormal range
        elif k == 1:
            ea = r.rng(-500, 500); eb = max(-1074, min(1023, r.rng(1000, 1030) - ea))      # product near overflow
        else:
            ea, eb = r.rng(-500, 500), r.rng(-500, 500)
        a, b = fp.mant_exp(r, ea), fp.mant_exp(r, eb)
        if k == 5:
            # short mantissas: exact products, zero error terms
            a = float(r.rng(1, 2**26)) * 2.0 ** r.rng(-200, 200); b = float(r.rng(1, 2**26)) * 2.0 ** r.rng(-200, 200)
        c.add('TwoFloat.new_mul %s %s' % (hx(a), hx(b)), kind='fma')
        c.add('TwoFloat.new_div %s %s' % (hx(a), hx(b)), kind='fma')
        t = tf_in(r, max(-1000, ea - 2), min(1000, ea + 2))
        c.add('%s %s %s' % (TF_('Mul'), w2(t), hx(b)), kind='fma')
        # fma(lo, rhs, cl1) with |lo*rhs| within a few binades of ulp(cl1)/2: the product is (nearly) absorbed by the addend
        # (cl1, the error term of hi*rhs, is ~2^-53|hi*rhs|, so lo sits ~106 binades below hi); short significands make cl1 a power of two
        for _ in range(2):
            eh = r.rng(-400, 400)
            hh = fp.mant_exp(r, eh) if r.below(2) else short_sig(r, r.rng(20, 40), eh, eh + 53)
            ll = fp.mant_exp(r, math.frexp(hh)[1] - 1 - 106 + r.rng(-4, 4))
            bb = fp.mant_exp(r, r.rng(-3, 3)) if r.below(2) else short_sig(r, r.rng(20, 40), -40, 41)
            if fp.is_valid(hh, ll):
                c.add('%s %s %s' % (TF_('Mul'), w2((hh, ll)), hx(bb)), kind='fma')
                c.add('%s %s %s' % (FT('Mul'), hx(bb), w2((hh, ll))), kind='fma')
                c.add('%s %s %s' % (TT('Mul'), w2((hh, ll)), w2((bb, 0.0))), kind='fma')
                c.add('%s %s %s' % (TF_('Div'), w2((hh, ll)), hx(bb)), kind='fma')
        t2 = tf_in(r, -500, 500)
        c.add('%s %s %s' % (TT('Mul'), w2(t), w2(t2)), kind='fma')
        c.add('%s %s %s' % (TT('Div'), w2(t), w2(t2)), kind='fma')
        c.add('%s %s %s' % (TF_('Div'), w2(t), hx(b)), kind='fma')
    return c

def chk_none(c, ans):
    return [fail(i, 'no-answer', a) for i, a in enumerate(ans) if a == 'bad-op']

PROPS['C11'] = dict(roots=[r'.'], gen=gen_C11, chk=chk_none, n_quick=3000, n_thorough=100000, nostd=True)

# ================================================================================================ transcendental helpers (mpmath, search only)

def mp_true(fn, *vs):
    m = mp()
    return getattr(m, fn)(*vs)

def err_fail(i, out, clause, hl, true, bound_abs):
    """|got - true| <= bound_abs ?  (bound_abs is an mpf)"""
    m = mp()
    h, l = hl
    if not finite(h, l):
        out.append(fail(i, clause, 'non-finite result (%s, %s)' % (hx(h), hx(l)))); return
    e = abs(mpv(h, l) - true)
    if e > bound_abs:
        rel = e / abs(true) if true != 0 else e
        out.append(fail(i, clause, 'error 2^%.2f (rel 2^%.2f) exceeds bound 2^%.2f' % (log2_of(e), log2_of(rel), log2_of(bound_abs))))

def P2(k):
    return mp().mpf(2) ** k

def log_uniform_tf(r, emin, emax, sign=None):
    e = r.rng(emin, emax - 1)
    t = tf_in(r, e, e + 1, zero=False)
    if sign is not None:
        if (t[0] < 0) != (sign < 0):
            t = (-t[0], -t[1])
    return t

def tf_near(r, x, width_bits=8):
    """a valid TwoFloat near the real x (Fraction or float): x*(1+d), |d| up to 2^-width_bits, adversarial low word"""
    q = Fr(x)
    d = Fr(r.rng(-2**20, 2**20), 2 ** (20 + r.rng(width_bits, 70)))
    q = q * (1 + d)
    h = fp.rn(q)
    l = fp.rn(q - Fr(h))
    if r.below(3) == 0:
        l = 0.0
    return (h, l) if fp.is_valid(h, l) else (h, 0.0)

def tf_of_fr(q):
    h = fp.rn(q); l = fp.rn(q - Fr(h))
    return (h, l) if fp.is_valid(h, l) else (h, 0.0)

# ================================================================================================ C12

CONSTS = {
    'E': lambda m: m.e, 'FRAC_1_PI': lambda m: 1 / m.pi, 'FRAC_1_SQRT_2': lambda m: 1 / m.sqrt(2), 'FRAC_2_PI': lambda m: 2 / m.pi,
    'FRAC_2_SQRT_PI': lambda m: 2 / m.sqrt(m.pi), 'FRAC_PI_2': lambda m: m.pi / 2, 'FRAC_PI_3': lambda m: m.pi / 3, 'FRAC_PI_4': lambda m: m.pi / 4,
    'FRAC_PI_6': lambda m: m.pi / 6, 'FRAC_PI_8': lambda m: m.pi / 8, 'LN_2': lambda m: m.log(2), 'LN_10': lambda m: m.log(10),
    'LOG2_E': lambda m: 1 / m.log(2), 'LOG10_E': lambda m: 1 / m.log(10), 'LOG10_2': lambda m: m.log(2) / m.log(10), 'LOG2_10': lambda m: m.log(10) / m.log(2),
    'PI': lambda m: m.pi, 'SQRT_2': lambda m: m.sqrt(2), 'TAU': lambda m: 2 * m.pi,
}

def mpf_to_fr(x):
    m = mp()
    sign, man, exp, bc = x._mpf_
    q = Fr(int(man)) * (Fr(2) ** int(exp))
    return -q if sign else q

def gen_C12(r, n):
    c = Cases()
    for k in CONSTS:
        c.add('consts.' + k, kind='const', name=k)
        c.add(NUMT % ('FloatConst', k), kind='const', name=k)
        if k in ('TAU', 'LOG10_2', 'LOG2_10'):     # FloatConst methods with provided defaults in num_traits: observed through the trait
            c.add('tr.FloatConst.%s' % k, kind='const', name=k, impl_only=True)
    for k in ('MAX', 'MIN', 'MIN_POSITIVE', 'NAN', 'INFINITY', 'NEG_INFINITY', 'EPSILON'):
        c.add('TwoFloat.' + k, kind='assoc', name=k)
    for _ in range(n):
        x = log_uniform_tf(r, -450, 450)
        c.add('TwoFloat.to_degrees %s' % w2(x), kind='deg', x=x)
        c.add('TwoFloat.to_radians %s' % w2(x), kind='rad', x=x)
    # worst cases of the double-double product x * factor: high word just above a power of two (the relative weight of every
    # rounding error is largest there) with a low word just inside the half-ulp limit, both signs
    for _ in range(3 * n):
        e = r.rng(-400, 400)
        u = Fr(r.rng(2**52, 2**53 - 1), 2**52) * Fr(1, 2 ** r.rng(8, 52))
        h = fp.rn(Fr(2) ** e * (1 + u))
        half = fp.rn(fp.ulp(h) / 2)
        l = fp.rn(Fr(half) * (1 - Fr(r.rng(0, 2**30), 2**30) / r.choice([2**40, 2**20, 64]))) * r.choice([1, 1, -1])
        x = (h, l) if fp.is_valid(h, l) else (h, math.nextafter(half, 0.0))
        if not fp.is_valid(*x):
            continue
        sg = r.choice([1.0, -1.0])
        x = (x[0] * sg, x[1] * sg)
        c.add('TwoFloat.to_degrees %s' % w2(x), kind='deg', x=x)
        c.add('TwoFloat.to_radians %s' % w2(x), kind='rad', x=x)
    # greatest / least valid values: random valid values compared against MAX and MIN
    for _ in range(max(10, n // 10)):
        x = tf_in(r, 1000, 1024)
        c.add('%s %s %s' % (CMP_TT, w2(x), '7fefffffffffffff 7c8fffffffffffff'), kind='le_max', x=x)
        c.add('%s %s %s' % (CMP_TT, w2(x), 'ffefffffffffffff fc8fffffffffffff'), kind='ge_min', x=x)
    return c

def chk_C12(c, ans):
    out = []
    m = mp()
    for i, (ln, mt, a) in enumerate(zip(c.lines, c.meta, ans)):
        if a in ('PANIC', 'bad-op'):
            out.append(fail(i, 'no-panic', a)); continue
        k = mt['kind']
        if k == 'const':
            h, l = words(a)
            true = mpf_to_fr(CONSTS[mt['name']](m))
            eh = fp.rn(true)
            el = fp.rn(true - Fr(eh))
            if (hx(h), hx(l)) != (hx(eh), hx(el)):
                out.append(fail(i, 'const_correctly_rounded', '%s = (%s, %s), expected (%s, %s)' % (mt['name'], hx(h), hx(l), hx(eh), hx(el))))
            if not fp.is_valid(h, l):
                out.append(fail(i, 'const_valid', mt['name']))
        elif k == 'assoc':
            h, l = words(a)
            nme = mt['name']
            if nme in ('MAX', 'MIN'):
                s = 1 if nme == 'MAX' else -1
                if not (fp.is_valid(h, l) and h == s * 1.7976931348623157e308):
                    out.append(fail(i, 'max_min_valid', a))
                nxt = math.nextafter(l, s * math.inf)
                if fp.is_valid(h, nxt):
                    out.append(fail(i, 'max_min_extreme', 'a larger low word would still be valid'))
            elif nme == 'MIN_POSITIVE':
                if not (h == 2.0 ** -1022 and hx(l) == hx(0.0)):
                    out.append(fail(i, 'min_positive', a))
            elif nme == 'NAN':
                if not (h != h):
                    out.append(fail(i, 'nan', a))
            elif nme in ('INFINITY', 'NEG_INFINITY'):
                if fp.is_valid(h, l) or not math.isinf(h):
                    out.append(fail(i, 'infinity_not_valid', a))
        elif k in ('deg', 'rad'):
            x = mpv(*mt['x'])
            true = x * 180 / m.pi if k == 'deg' else x * m.pi / 180
            err_fail(i, out, 'angle_conversion', words(a), true, abs(true) * 6 * P2(-106))
        elif k == 'le_max':
            if fp.is_valid(*mt['x']) and a not in ('Some(Less)', 'Some(Equal)'):
                out.append(fail(i, 'max_is_greatest', a))
        elif k == 'ge_min':
            if fp.is_valid(*mt['x']) and a not in ('Some(Greater)', 'Some(Equal)'):
                out.append(fail(i, 'min_is_least', a))
    return out

def extra_C12(c, ans):
    c2 = Cases()
    c2.add('%s 7ff8000000000000 7ff8000000000000 7ff8000000000000 7ff8000000000000' % EQ_TT, want='false', clause='nan_ne_nan')
    c2.add('TwoFloat.is_valid 7ff0000000000000 7ff0000000000000', want='false', clause='infinity_not_valid')
    c2.add('TwoFloat.is_valid fff0000000000000 fff0000000000000', want='false', clause='infinity_not_valid')
    c2.add('TwoFloat.is_valid 7fefffffffffffff 7c8fffffffffffff', want='true', clause='max_valid')
    c2.add('TwoFloat.is_valid 7fefffffffffffff 7c90000000000000', want='false', clause='max_extreme')
    c2.add('TwoFloat.is_valid ffefffffffffffff fc8fffffffffffff', want='true', clause='min_valid')
    c2.add('TwoFloat.is_valid ffefffffffffffff fc90000000000000', want='false', clause='min_extreme')
    return c2

def chk_want(c2, ans):
    return [fail(i, m['clause'], 'got %s want %s' % (a, m['want'])) for i, (m, a) in enumerate(zip(c2.meta, ans)) if a != m['want']]

PROPS['C12'] = dict(roots=[r'^consts\.', r'^TwoFloat\.(MAX|MIN|MIN_POSITIVE|NAN|INFINITY|NEG_INFINITY|EPSILON|to_degrees|to_radians)$',
                           r'^num_integration\.impl_(FloatConst|Bounded)_for_TwoFloat', r'^num_integration\.impl_Float(Core)?_for_TwoFloat\.(infinity|neg_infinity|nan|min_value|max_value|min_positive_value|epsilon|to_degrees|to_radians)$'],
                    extra_roots=[r'^base\.(DEG_PER_RAD|RAD_PER_DEG)$', r'^explog\.LN_10$'],
                    gen=gen_C12, chk=chk_C12, n_quick=400, n_thorough=20000, followups=[(extra_C12, chk_want)])

# ================================================================================================ C13 roots and integer powers

def gen_C13(r, n):
    c = Cases()
    for _ in range(n):
        x = log_uniform_tf(r, -900, 900)
        xp = (abs(x[0]), x[1] if x[0] > 0 else -x[1])
        c.add('TwoFloat.sqrt %s' % w2(xp), kind='sqrt', x=xp)
        c.add('TwoFloat.cbrt %s' % w2(x), kind='cbrt', x=x)
        a, b = log_uniform_tf(r, -400, 400), log_uniform_tf(r, -400, 400)
        if r.below(3) == 0:
            e = math.frexp(a[0])[1] + r.rng(-60, 60)
            b = log_uniform_tf(r, max(-400, min(399, e)), max(-399, min(400, e + 1)))
        if r.below(4) == 0:
            l2 = r.choice([0.0, -a[1], fp.rn(fp.ulp(a[0]) / 2 ** r.rng(2, 50)) * r.choice([1, -1])])
            b = (a[0] * r.choice([1, -1]), l2) if fp.is_valid(a[0], l2) else b        # equal high words, different low words
        c.add('TwoFloat.hypot %s %s' % (w2(a), w2(b)), kind='hypot', x=a, y=b)
        # powi: n log-uniform in |n|
        k = r.below(8)
        nn = r.choice([0, 1, -1, 2, -2, 3, 2**31 - 1, -2**31, -2**31 + 1]) if k == 0 else r.rng(1, 2 ** r.rng(1, 31)) * r.choice([1, -1])
        nn = max(-2**31, min(2**31 - 1, nn))
        # choose x so that |x|^|n| stays within [2^-900, 2^900] most of the time
        lim = 900 / max(1, abs(nn))
        if lim >= 1:
            xx = log_uniform_tf(r, -int(lim), int(lim) + 1)
        else:
            d = Fr(r.rng(-2**30, 2**30), 2**30) * Fr(int(lim * 2**20), 2**20) * Fr(6, 10)
            xx = tf_of_fr((1 + d) * r.choice([1, -1]))
        c.add('TwoFloat.powi %s %d' % (w2(xx), nn), kind='powi', x=xx, n=nn)
        c.add('TwoFloat.powi %s %d' % (w2(x), r.choice([0, 1, -2**31, 2**31 - 1, nn])), kind='powi_total', x=x)
    for z in ((0.0, 0.0), (-0.0, 0.0), (-0.0, -0.0)):
        c.add('TwoFloat.sqrt %s' % w2(z), kind='sqrt0', x=z)
        c.add('TwoFloat.cbrt %s' % w2(z), kind='cbrt0', x=z)
        for nn in (0, 1, 2, -1, 5, -2**31):
            c.add('TwoFloat.powi %s %d' % (w2(z), nn), kind='powi_zero', x=z, n=nn)
    for _ in range(max(5, n // 20)):
        x = log_uniform_tf(r, -900, 900, sign=-1)
        c.add('TwoFloat.sqrt %s' % w2(x), kind='sqrtneg', x=x)
    return c

def chk_C13(c, ans):
    out = []
    m = mp()
    for i, (ln, mt, a) in enumerate(zip(c.lines, c.meta, ans)):
        if a == 'bad-op':
            out.append(fail(i, 'no-answer', a)); continue
        k = mt['kind']
        if a == 'PANIC':
            out.append(fail(i, 'powi_no_panic' if k.startswith('powi') else 'no-panic', 'panicked')); continue
        hl = words(a)
        if k == 'sqrt':
            t = m.sqrt(mpv(*mt['x']))
            err_fail(i, out, 'sqrt_bound', hl, t, t * 32 * P2(-106))
        elif k == 'cbrt':
            v = mpv(*mt['x'])
            t = m.cbrt(abs(v)) * (1 if v > 0 else -1)
            err_fail(i, out, 'cbrt_bound', hl, t, abs(t) * 16 * P2(-106))
        elif k == 'hypot':
            t = m.sqrt(mpv(*mt['x']) ** 2 + mpv(*mt['y']) ** 2)
            err_fail(i, out, 'hypot_bound', hl, t, t * 48 * P2(-106))
        elif k in ('sqrt0', 'cbrt0'):
            if not (hl[0] == 0 and hl[1] == 0):
                out.append(fail(i, k, 'got %s' % a))
        elif k == 'sqrtneg':
            if fp.is_valid(*hl):
                out.append(fail(i, 'sqrt_neg_invalid', 'got %s' % a))
        elif k == 'powi_zero':
            if mt['n'] == 0 and fp.is_valid(*hl):
                out.append(fail(i, 'powi_0_0_nan', a))
        elif k == 'powi':
            n_, x = mt['n'], mt['x']
            v = mpv(*x)
            if n_ == 0:
                if v != 0 and not (hl[0] == 1.0 and hl[1] == 0.0):
                    out.append(fail(i, 'powi_zero_exp', a))
            elif n_ == 1:
                if w2(hl) != w2(x):
                    out.append(fail(i, 'powi_one', a))
            else:
                mag = abs(n_) * m.log(abs(v), 2)
                if abs(mag) <= 900:
                    t = v ** n_
                    err_fail(i, out, 'powi_bound', hl, t, abs(t) * (6 * abs(n_) + 16) * P2(-106))
                    if finite(*hl) and hl[0] != 0 and ((hl[0] < 0) != (t < 0)):
                        out.append(fail(i, 'powi_sign', a))
    return out

def recip_C13(c, ans):
    c2 = Cases()
    for ln, mt, a in zip(c.lines, c.meta, ans):
        if mt['kind'] == 'powi' and mt['n'] < 0 and mt['n'] > -2**31 and a not in ('PANIC', 'bad-op'):
            c2.add('TwoFloat.powi %s %d' % (w2(mt['x']), -mt['n']), stage=1, neg=a)
    return c2
def chk_nothing(c, ans):
    return [fail(i, 'powi_no_panic', a) for i, a in enumerate(ans) if a == 'PANIC']
def recip2_C13(c2, ans):
    c3 = Cases()
    for ln, mt, a in zip(c2.lines, c2.meta, ans):
        if a not in ('PANIC', 'bad-op'):
            c3.add('TwoFloat.recip %s' % w2(words(a)), want=mt['neg'], clause='powi_neg_is_recip')
    return c3

PROPS['C13'] = dict(roots=[r'^TwoFloat\.(sqrt|cbrt|hypot|powi|recip)$', r'^num_integration\.impl_Pow_r?(i8|i16|i32|u8|u16)_for'],
                    gen=gen_C13, chk=chk_C13, n_quick=400, n_thorough=20000,
                    followups=[(recip_C13, chk_nothing, True), (recip2_C13, chk_want, True)])

# ================================================================================================ C14 exponential family

def gen_C14(r, n, thorough=False):
    c = Cases()
    def add(fn, x, **kw):
        c.add('TwoFloat.%s %s' % (fn, w2(x)), kind=fn, x=x, **kw)
    for _ in range(n):
        k = r.below(10)
        # exp: hit every table entry: x = y/2 + n/128 + tiny
        y = r.rng(-1200, 1400); nn = r.rng(-32, 32)
        q = Fr(y, 2) + Fr(nn, 128) + Fr(r.rng(-2**20, 2**20), 2 ** (20 + r.rng(7, 60)))
        if k < 5 and -600 <= q <= 700:
            add('exp', tf_of_fr(q))
        elif k < 7:
            add('exp', log_uniform_tf(r, -60, 9))
        else:
            add('exp', tf_near(r, r.choice([Fr(-600), Fr(700), Fr(1, 4), Fr(-1, 4), Fr(709), Fr(-745), Fr(1, 128), Fr(3, 256)])))
        # exp2
        q2 = Fr(r.rng(-900, 1000)) + Fr(r.rng(-2**20, 2**20), 2**20) * r.choice([1, Fr(1, 2**r.rng(1, 40))])
        if -900 <= q2 <= 1000:
            add('exp2', tf_of_fr(q2))
        add('exp2', (float(r.rng(-1022, 1022)), 0.0), exact=True)
        hh_ = r.rng(-900, 999) + 0.5
        ll_ = fp.rn(fp.ulp(hh_) / 2 ** r.rng(1, 60)) * r.choice([1, -1])
        if fp.is_valid(hh_, ll_):
            add('exp2', (hh_, ll_))             # reduction boundary: round(hi) and round(hi + lo) can differ
        ii_ = float(r.rng(-900, 999))
        ll_ = fp.rn(fp.ulp(ii_ if ii_ else 1.0) / 2 ** r.rng(1, 60)) * r.choice([1, -1])
        if fp.is_valid(ii_, ll_):
            add('exp2', (ii_, ll_))
        # exp_m1
        kk = r.below(6)
        if kk == 0:
            xm = log_uniform_tf(r, -1000, -8)
        elif kk == 1:
            xm = tf_of_fr(Fr(r.rng(-70 * 2**20, 41 * 2**20), 100 * 2**20))       # the 2^-45 zone [-0.70, 0.41]
        elif kk == 2:
            xm = tf_near(r, r.choice([Fr(-6931, 10000), Fr(4054, 10000), Fr(-7, 10), Fr(41, 100), Fr(1, 256), Fr(-1, 256)]))
        else:
            xm = tf_of_fr(Fr(r.rng(-600 * 2**20, 700 * 2**20), 2**20))
        add('exp_m1', xm)
        # powf
        px = log_uniform_tf(r, -30, 30, sign=1)
        py = tf_of_fr(Fr(r.rng(-10 * 2**30, 10 * 2**30), 2**30))
        c.add('TwoFloat.powf %s %s' % (w2(px), w2(py)), kind='powf', x=px, y=py)
        # negative base: integer and non-integer exponents (parity from the right word)
        nb = (-px[0], -px[1])
        iy = r.choice([(float(r.rng(-9, 9)), 0.0), tf_of_fr(Fr(2**60 + r.rng(0, 7))), tf_of_fr(Fr(2**53 + 1))])
        c.add('TwoFloat.powf %s %s' % (w2(nb), w2(iy)), kind='powf_neg_int', x=nb, y=iy)
        c.add('TwoFloat.powf %s %s' % (w2(nb), w2(py)), kind='powf_neg', x=nb, y=py)
        # non-integers hiding behind an integer word: integer high word with a tiny low word, half-integers with an integer low word,
        # large even/odd high words with a fractional low word — the integrality test must look at BOTH words
        kq = r.below(3)
        if kq == 0:
            qy = Fr(r.rng(-9, 9)) + Fr(r.choice([1, -1]), 2 ** r.rng(53, 100))
        elif kq == 1:
            qy = Fr(2 ** r.rng(53, 60) + 2 * r.rng(0, 50)) + Fr(r.rng(1, 7), 8)
        else:
            qy = Fr(r.rng(-9, 9)) + Fr(r.rng(1, 2 ** 20 - 1), 2 ** 20) * Fr(1, 2 ** r.rng(0, 50))
        qt = tf_of_fr(qy)
        if V(*qt).denominator != 1:
            c.add('TwoFloat.powf %s %s' % (w2(nb), w2(qt)), kind='powf_neg', x=nb, y=qt)
        c.add('TwoFloat.powf %s %s' % (w2(px), w2((0.0, 0.0))), kind='powf_y0', x=px)
        c.add('TwoFloat.powf %s %s' % (w2((0.0, 0.0)), w2(py)), kind='powf_x0', y=py)
        # thresholds
        add('exp', tf_in(r, 10, 30), thr=True)
        add('exp2', tf_in(r, 10, 30), thr=True)
    if thorough:
        for kk in range(-1022, 1023):          # exhaustive: exp2(k) = 2^k for every integer k in [-1022, 1022]
            add('exp2', (float(kk), 0.0), exact=True)
    for z in ((0.0, 0.0), (-0.0, 0.0)):
        add('exp', z, zero=True); add('exp_m1', z, zero=True); add('exp2', z, exact=True)
    c.add('TwoFloat.powf %s %s' % (w2((0.0, 0.0)), w2((0.0, 0.0))), kind='powf_00')
    return c

def chk_C14(c, ans):
    out = []
    m = mp()
    for i, (ln, mt, a) in enumerate(zip(c.lines, c.meta, ans)):
        if a == 'bad-op':
            out.append(fail(i, 'no-answer', a)); continue
        if a == 'PANIC':
            out.append(fail(i, 'no-panic', 'panicked on a valid argument')); continue
        hl = words(a)
        k = mt['kind']
        if k == 'exp':
            v = mpv(*mt['x'])
            if mt.get('zero'):
                if not (hl == (1.0, 0.0)):
                    out.append(fail(i, 'exp_zero', a))
            elif v <= -750:
                if not (hl[0] == 0 and hl[1] == 0):
                    out.append(fail(i, 'exp_underflow_zero', a))
            elif v >= 710:
                if fp.isfin(hl[0]):
                    out.append(fail(i, 'exp_overflow_nonfinite', a))
            elif -600 <= v <= 700:
                t = m.exp(v)
                err_fail(i, out, 'exp_bound', hl, t, t * P2(-100))
        elif k == 'exp2':
            v = mpv(*mt['x'])
            if mt.get('exact'):
                kk = int(mt['x'][0])
                if not (hl[0] == math.ldexp(1.0, kk) and hl[1] == 0):
                    out.append(fail(i, 'exp2_int_exact', '2^%d -> %s' % (kk, a)))
            elif v <= -1080:
                if not (hl[0] == 0 and hl[1] == 0):
                    out.append(fail(i, 'exp2_underflow_zero', a))
            elif v >= 1024:
                if fp.isfin(hl[0]):
                    out.append(fail(i, 'exp2_overflow_nonfinite', a))
            elif -900 <= v <= 1000:
                t = m.power(2, v)
                err_fail(i, out, 'exp2_bound', hl, t, t * P2(-93))
        elif k == 'exp_m1':
            v = mpv(*mt['x'])
            if mt.get('zero'):
                if not (hl[0] == 0 and hl[1] == 0):
                    out.append(fail(i, 'exp_m1_zero', a))
            elif v <= 700 and abs(v) >= P2(-1000):
                t = m.expm1(v)
                tight = abs(v) <= P2(-8) or v < m.mpf('-0.70') or v > m.mpf('0.41')
                err_fail(i, out, 'exp_m1_bound' if tight else 'exp_m1_bound_mid', hl, t, abs(t) * (P2(-100) if tight else P2(-45)))
        elif k == 'powf':
            x, y = mpv(*mt['x']), mpv(*mt['y'])
            t = m.power(x, y)
            err_fail(i, out, 'powf_bound', hl, t, t * P2(-100) * (1 + abs(y * m.log(x))))
        elif k == 'powf_neg_int':
            x, y = mpv(*mt['x']), mpv(*mt['y'])
            yi = int(V(*mt['y']))
            if abs(yi) <= 40 and finite(*hl):
                t = m.power(abs(x), y) * (-1 if yi % 2 else 1)
                err_fail(i, out, 'powf_neg_base', hl, t, abs(t) * P2(-100) * (1 + abs(y * m.log(abs(x)))))
            if fp.is_valid(*hl) and hl[0] != 0 and ((hl[0] < 0) != (yi % 2 == 1)):
                out.append(fail(i, 'powf_neg_parity', 'y=%d -> %s' % (yi, a)))
        elif k == 'powf_neg':
            if V(*mt['y']).denominator != 1 and fp.is_valid(*hl):
                out.append(fail(i, 'powf_neg_nonint_invalid', a))
        elif k == 'powf_y0':
            if not (hl == (1.0, 0.0)):
                out.append(fail(i, 'powf_y_zero', a))
        elif k == 'powf_x0':
            if V(*mt['y']) > 0 and not (hl[0] == 0 and hl[1] == 0):
                out.append(fail(i, 'powf_zero_base', a))
        elif k == 'powf_00':
            if fp.is_valid(*hl):
                out.append(fail(i, 'powf_0_0_invalid', a))
    return out

PROPS['C14'] = dict(roots=[r'^TwoFloat\.(exp|exp_m1|exp2|powf)$'], gen=gen_C14, chk=chk_C14, n_quick=300, n_thorough=15000, gen_tier=True)

# ================================================================================================ C15 logarithms

def gen_C15(r, n, thorough=False):
    c = Cases()
    if thorough:
        for kk in range(-1000, 961):           # exhaustive: log2(2^k) = k for every integer k in [-1000, 960]
            c.add('TwoFloat.log2 %s' % w2((math.ldexp(1.0, kk), 0.0)), kind='log2_pow2')
    for _ in range(n):
        k = r.below(8)
        if k < 4:
            x = log_uniform_tf(r, -1000, 960, sign=1)
        elif k < 6:
            x = tf_near(r, Fr(1), 2)                       # dense around 1, where the result changes sign
        else:
            x = tf_near(r, Fr(2) ** r.rng(-20, 20), 20)
        if r.below(4) == 0:
            # arguments whose logarithm sits next to a reduction boundary of exp (k/2 + 1/4): the Newton steps of ln evaluate
            # exp(-ln x) right there
            m_ = mp()
            q_ = (m_.mpf(r.rng(0, 1300)) / 2 + m_.mpf(1) / 4) * r.choice([1, -1]) + m_.mpf(r.choice([1, -1])) * m_.mpf(2) ** (-r.rng(30, 60)) * r.rng(1, 7)
            if -690 < q_ < 660:
                x = tf_of_fr(mpf_to_fr(m_.exp(q_)))
        for fn in ('ln', 'log2', 'log10'):
            c.add('TwoFloat.%s %s' % (fn, w2(x)), kind=fn, x=x)
        c.add('TwoFloat.log2 %s' % w2((math.ldexp(1.0, r.rng(-1000, 960)), 0.0)), kind='log2_pow2')
        b = log_uniform_tf(r, -20, 20, sign=1)
        c.add('TwoFloat.log %s %s' % (w2(x), w2(b)), kind='log', x=x, b=b)
        # ln_1p
        kk = r.below(7)
        if kk == 0:
            y = log_uniform_tf(r, -1000, -8)
        elif kk == 6:
            # just above -1: 1 + x = m * 2^-k down to the last bit of the low word (the f64 seed log1p(hi) cannot see lo)
            y = tf_of_fr(-1 + Fr(r.rng(1, 2**r.rng(1, 24)), 2**r.rng(24, 128)))
            if r.below(3) == 0:
                # hi = -1 exactly with a tiny positive low word, down to the least subnormal: 1 + x = lo (ln of the subnormal range)
                y = (-1.0, math.ldexp(float(r.rng(1, 2**20)), -r.rng(128, 1074) - 20) or 5e-324)
        elif kk == 1:
            y = tf_of_fr(Fr(r.rng(-2**30 + 1, 3 * 2**28), 2**30))      # (-1, 0.75)
        elif kk == 2:
            y = tf_near(r, r.choice([Fr(3, 4), Fr(-1, 2), Fr(1, 256), Fr(-1, 256), Fr(-999, 1000)]))
        else:
            y = log_uniform_tf(r, -1, 960, sign=1)
        c.add('TwoFloat.ln_1p %s' % w2(y), kind='ln_1p', x=y)
        # domain
        neg = log_uniform_tf(r, -1000, 960, sign=-1)
        for fn in ('ln', 'log2', 'log10'):
            c.add('TwoFloat.%s %s' % (fn, w2(neg)), kind='dom', x=neg)
        c.add('TwoFloat.ln_1p %s' % w2(tf_of_fr(-1 - abs(Fr(r.rng(0, 2**30), 2**20)))), kind='dom')
    for fn in ('ln', 'log2', 'log10'):
        for one in ((1.0, 0.0), (1.0, -0.0)):                   # both valid representations of 1
            c.add('TwoFloat.%s %s' % (fn, w2(one)), kind='zero_at')
        for z in [(0.0, 0.0), (0.0, -0.0), (-0.0, 0.0), (-0.0, -0.0)]:                                            # every zero bit pattern
            c.add('TwoFloat.%s %s' % (fn, w2(z)), kind='dom')
    for z in [(0.0, 0.0), (0.0, -0.0), (-0.0, 0.0), (-0.0, -0.0)]:
        c.add('TwoFloat.ln_1p %s' % w2(z), kind='zero_at')
    c.add('TwoFloat.ln_1p %s' % w2((-1.0, 0.0)), kind='dom')
    return c

def chk_C15(c, ans):
    out = []
    m = mp()
    for i, (ln, mt, a) in enumerate(zip(c.lines, c.meta, ans)):
        if a == 'bad-op':
            out.append(fail(i, 'no-answer', a)); continue
        if a == 'PANIC':
            out.append(fail(i, 'no-panic', 'panicked on a valid argument')); continue
        hl = words(a)
        k = mt['kind']
        if k == 'ln':
            t = m.log(mpv(*mt['x']))
            err_fail(i, out, 'ln_bound', hl, t, P2(-101) * (1 + abs(t)))
        elif k == 'log2':
            t = m.log(mpv(*mt['x']), 2)
            err_fail(i, out, 'log2_bound', hl, t, P2(-101) * abs(t) + P2(-92))
        elif k == 'log10':
            t = m.log10(mpv(*mt['x']))
            err_fail(i, out, 'log10_bound', hl, t, P2(-100) * (1 + abs(t)))
        elif k == 'log2_pow2':
            kk = math.frexp(unhx(args_of(ln)[0]))[1] - 1
            if not (hl[0] == float(kk) and hl[1] == 0):
                out.append(fail(i, 'log2_pow2_exact', 'log2(2^%d) = %s' % (kk, a)))
        elif k == 'ln_1p':
            v = mpv(*mt['x'])
            xq = V(*mt['x'])
            if xq > -1 and (xq == 0 or abs(xq) >= Fr(1, 2 ** 1000)):
                # next to -1 the sum 1 + x needs up to 1074 + 53 bits: form it exactly as a rational (a 600-bit -1 + lo would be rounded)
                t = m.log(mp_of_fr(1 + xq)) if xq <= Fr(-1, 2) else m.log1p(v)
                tight = abs(v) <= P2(-8) or v >= m.mpf('0.75')
                err_fail(i, out, 'ln_1p_bound' if tight else 'ln_1p_bound_mid', hl, t, abs(t) * (P2(-100) if tight else P2(-45)))
        elif k == 'dom':
            if fp.is_valid(*hl):
                out.append(fail(i, 'log_domain_invalid', a))
        elif k == 'zero_at':
            if not (hl[0] == 0 and hl[1] == 0):
                out.append(fail(i, 'log_exact_zero', a))
    return out

def ident_C15(c, ans):
    """log(x, b) == ln x / ln b and log10 x == ln x / LN_10, bit for bit (second round)"""
    c2 = Cases()
    lnx = {}
    for ln, mt, a in zip(c.lines, c.meta, ans):
        if mt['kind'] == 'ln':
            lnx[w2(mt['x'])] = a
    for ln, mt, a in zip(c.lines, c.meta, ans):
        if mt['kind'] == 'log10' and w2(mt['x']) in lnx and a != 'PANIC':
            c2.add('%s %s %s' % (TT('Div'), lnx[w2(mt['x'])], '40026bb1bbb55516 bcaf48ad494ea3e9'), want=a, clause='log10_is_ln_div_ln10')
        if mt['kind'] == 'log' and w2(mt['x']) in lnx and a != 'PANIC':
            c2.add('TwoFloat.ln %s' % w2(mt['b']), stage='lnb', lnx=lnx[w2(mt['x'])], want_final=a, want=None, clause='stage')
    return c2
def chk_ident_C15(c2, ans):
    return [fail(i, m['clause'], 'got %s want %s' % (a, m['want'])) for i, (m, a) in enumerate(zip(c2.meta, ans)) if m['want'] is not None and a != m['want']]
def ident2_C15(c2, ans):
    c3 = Cases()
    for ln, mt, a in zip(c2.lines, c2.meta, ans):
        if mt.get('stage') == 'lnb' and a != 'PANIC':
            c3.add('%s %s %s' % (TT('Div'), mt['lnx'], a), want=mt['want_final'], clause='log_is_ln_div_ln')
    return c3

PROPS['C15'] = dict(roots=[r'^TwoFloat\.(ln|ln_1p|log|log2|log10)$'], gen=gen_C15, chk=chk_C15, n_quick=150, n_thorough=8000, gen_tier=True,
                    followups=[(ident_C15, chk_ident_C15, True), (ident2_C15, chk_want, True)])

# ================================================================================================ C16 sin cos tan

def gen_C16(r, n):
    c = Cases()
    m = mp()
    def add(x):
        for fn in ('sin', 'cos', 'tan', 'sin_cos'):
            c.add('TwoFloat.%s %s' % (fn, w2(x)), kind=fn, x=x)
    pi4 = mpf_to_fr(m.pi / 4)
    for _ in range(n):
        k = r.below(8)
        if k < 3:
            # both sides of a multiple of pi/4 up to 2^20
            j = r.rng(-2**r.rng(1, 22), 2**r.rng(1, 22))
            q = pi4 * j
            if abs(q) > 2**20:
                q = pi4 * (j % 1000)
            d = Fr(r.rng(-2**20, 2**20), 2 ** (20 + r.rng(1, 80)))
            add(tf_of_fr(q + d))
        elif k < 5:
            add(log_uniform_tf(r, -60, 0) if r.below(3) else log_uniform_tf(r, -300, 0))     # log-uniform towards 0
        elif k < 7:
            q = Fr(r.rng(-2**40, 2**40), 2**20)
            add(tf_of_fr(q))
        else:
            add(log_uniform_tf(r, -5, 20))
    for z in ((0.0, 0.0), (-0.0, 0.0), (0.0, -0.0), (-0.0, -0.0)):
        for fn in ('sin', 'cos', 'tan'):
            c.add('TwoFloat.%s %s' % (fn, w2(z)), kind='zero_' + fn, x=z)
    # the double-double FRAC_PI_2 itself and its negation: reduced argument exactly 0 in an odd quadrant (known finding for tan)
    for pz in ((unhx('3ff921fb54442d18'), unhx('3c91a62633145c07')), (unhx('bff921fb54442d18'), unhx('bc91a62633145c07')),
               (unhx('4012d97c7f3321d2'), unhx('3caa79394c9e8a0a')),      # RN_dd(3 * FRAC_PI_2): true remainder 2^-106, computed remainder 0
               (unhx('4046c6cbc45dc8de'), unhx('bc26d61b58c99a80')),      # 29 * FRAC_PI_2, exactly representable
               (unhx('411b23694858e0d9'), unhx('bdbfaecdd60da6ce'))):     # k = 283063
        add(pz)
    for bad in ((math.nan, 0.0), (math.inf, 0.0), (1.0, 1.0), (1.0, math.nan), (-math.inf, -math.inf)):
        for fn in ('sin', 'cos', 'tan'):
            c.add('TwoFloat.%s %s' % (fn, w2(bad)), kind='invalid_arg', x=bad)
    return c

def chk_C16(c, ans):
    out = []
    m = mp()
    got = {}
    for i, (ln, mt, a) in enumerate(zip(c.lines, c.meta, ans)):
        if a == 'bad-op':
            out.append(fail(i, 'no-answer', a)); continue
        if a == 'PANIC':
            if mt['kind'] != 'invalid_arg':
                out.append(fail(i, 'no-panic', 'panicked on a valid argument'))
            continue
        k = mt['kind']
        if k == 'invalid_arg':
            if fp.is_valid(*words(a)):
                out.append(fail(i, 'invalid_arg_invalid_result', a))
            continue
        if k.startswith('zero_'):
            hl = words(a)
            want = (1.0, 0.0) if k == 'zero_cos' else (0.0, 0.0)
            if not (hl[0] == want[0] and hl[1] == want[1]):
                out.append(fail(i, k, a))
            continue
        x = mt['x']
        v = mpv(*x)
        if abs(v) > P2(20):
            continue
        got[(k, w2(x))] = a
        if k == 'sin':
            t = m.sin(v)
            err_fail(i, out, 'sin_abs', words(a), t, P2(-66))
            if abs(v) <= m.pi / 4:
                err_fail(i, out, 'sin_rel', words(a), t, abs(t) * P2(-64))
        elif k == 'cos':
            err_fail(i, out, 'cos_abs', words(a), m.cos(v), P2(-66))
        elif k == 'tan':
            t = m.tan(v)
            bound = P2(-50) * max(abs(t), P2(-30)) + P2(-80) * (1 + t * t)
            n0 = len(out)
            err_fail(i, out, 'tan_bound', words(a), t, bound)
            if len(out) > n0 and not finite(*words(a)):
                # known finding: the reduced argument is exactly 0 in an odd quadrant (x is an odd multiple of the
                # double-double FRAC_PI_2 itself), -1.0 / restricted_tan(0) divides by zero
                # (Lean: CAudit.tan_nan_at_reduced_zero, tan_not_finite_iff).  The computed remainder x - k*FRAC_PI_2 is exactly 0 not only
                # for the exact multiples (k = 1, 29, 204551 below 2^20) but for 3 386 of the double-doubles nearest to an odd multiple:
                # recognised here by |x - k*FRAC_PI_2| < 2^-96 with k odd
                Pq = V(unhx('3ff921fb54442d18'), unhx('3c91a62633145c07'))
                kq = round(V(*x) / Pq)
                if kq % 2 != 0 and abs(V(*x) - kq * Pq) < Fr(1, 2 ** 96):
                    out[-1]['key'] = 'tan_pole:zero-remainder'
        elif k == 'sin_cos':
            s_, c_ = got.get(('sin', w2(x))), got.get(('cos', w2(x)))
            if s_ is not None and c_ is not None and a != s_ + ' ' + c_:
                out.append(fail(i, 'sin_cos_eq', 'sin_cos=%s but (sin, cos)=(%s, %s)' % (a, s_, c_)))
    return out

PROPS['C16'] = dict(roots=[r'^TwoFloat\.(sin|cos|tan|sin_cos)$'], gen=gen_C16, chk=chk_C16, n_quick=300, n_thorough=15000)

# ================================================================================================ C17 inverse trig

def gen_C17(r, n):
    c = Cases()
    brk = [Fr(7, 16), Fr(11, 16), Fr(19, 16), Fr(39, 16), Fr(1, 2), Fr(1)]
    for _ in range(n):
        k = r.below(8)
        if k < 3:
            x = tf_of_fr(Fr(r.rng(-2**40, 2**40), 2**40))
        elif k < 5:
            x = tf_near(r, r.choice(brk) * r.choice([1, -1]), 4)
            if abs(V(*x)) > 1:
                x = tf_of_fr(Fr(r.rng(-2**40, 2**40), 2**40))
        else:
            x = log_uniform_tf(r, -200, 0)
        if abs(V(*x)) <= 1:
            c.add('TwoFloat.asin %s' % w2(x), kind='asin', x=x)
            c.add('TwoFloat.acos %s' % w2(x), kind='acos', x=x)
        y = r.choice([log_uniform_tf(r, -100, 60), tf_near(r, r.choice(brk[:4]) * r.choice([1, -1]), 4), tf_of_fr(Fr(r.rng(-2**24, 2**24), 2**20))])
        c.add('TwoFloat.atan %s' % w2(y), kind='atan', x=y)
        a, b = log_uniform_tf(r, -30, 30), log_uniform_tf(r, -30, 30)
        c.add('TwoFloat.atan2 %s %s' % (w2(a), w2(b)), kind='atan2', y=a, x=b)
        out_ = tf_of_fr((1 + abs(Fr(r.rng(1, 2**30), 2 ** r.rng(1, 60)))) * r.choice([1, -1]))
        if r.below(2):
            # barely outside: |x| = 1 + 2^-j for j up to 300 (the excess lives entirely in the low word)
            out_ = tf_of_fr((1 + Fr(r.rng(2**20, 2**21), 2 ** (20 + r.rng(1, 300)))) * r.choice([1, -1]))
            if r.below(3) == 0:
                sg_ = r.choice([1, -1])
                out_ = (1.0 * sg_, fp.fbits(r.choice([1, 1, 2, 3, r.rng(1, 2**20)])) * sg_)      # |x| = 1 + a few units of 2^-1074
        c.add('TwoFloat.asin %s' % w2(out_), kind='dom', x=out_)
        c.add('TwoFloat.acos %s' % w2(out_), kind='dom', x=out_)
    Z = [(0.0, 0.0), (-0.0, 0.0)]
    for zy in Z:
        for x in [(1.0, 0.0), (-1.0, 0.0), (3.5, 1e-20), (-2.0 ** -20, 0.0)]:
            c.add('TwoFloat.atan2 %s %s' % (w2(zy), w2(x)), kind='axis', y=zy, x=x)
    for zx in Z:
        for y in [(1.0, 0.0), (-1.0, 0.0), (7.25, -1e-18)]:
            c.add('TwoFloat.atan2 %s %s' % (w2(y), w2(zx)), kind='axis', y=y, x=zx)
    for z in [(0.0, 0.0), (0.0, -0.0), (-0.0, 0.0), (-0.0, -0.0)]:
        c.add('TwoFloat.asin %s' % w2(z), kind='zero')
        c.add('TwoFloat.atan %s' % w2(z), kind='zero')
    c.add('TwoFloat.acos %s' % w2((1.0, 0.0)), kind='zero')
    c.add('TwoFloat.acos %s' % w2((1.0, -0.0)), kind='zero')
    c.add('TwoFloat.asin %s' % w2((1.0, 0.0)), kind='pt', want='pi/2')
    c.add('TwoFloat.asin %s' % w2((-1.0, 0.0)), kind='pt', want='-pi/2')
    c.add('TwoFloat.acos %s' % w2((-1.0, 0.0)), kind='pt', want='pi')
    return c

PI_W = '400921fb54442d18 3ca1a62633145c07'
PI2_W = '3ff921fb54442d18 3c91a62633145c07'
def negw(w):
    h, l = w.split()
    return '%s %s' % (hx(-unhx(h)), hx(-unhx(l)))

def chk_C17(c, ans):
    out = []
    m = mp()
    for i, (ln, mt, a) in enumerate(zip(c.lines, c.meta, ans)):
        if a == 'bad-op':
            out.append(fail(i, 'no-answer', a)); continue
        if a == 'PANIC':
            out.append(fail(i, 'no-panic', 'panicked on a valid argument')); continue
        k = mt['kind']
        hl = words(a)
        if k == 'asin':
            t = m.asin(mpv(*mt['x']))
            err_fail(i, out, 'asin_abs', hl, t, P2(-45))
            err_fail(i, out, 'asin_rel', hl, t, abs(t) * P2(-43))
        elif k == 'acos':
            err_fail(i, out, 'acos_abs', hl, m.acos(mpv(*mt['x'])), P2(-45))
        elif k == 'atan':
            v = mpv(*mt['x'])
            if abs(v) <= P2(60):
                t = m.atan(v)
                err_fail(i, out, 'atan_rel', hl, t, abs(t) * P2(-70))
        elif k == 'atan2':
            t = m.atan2(mpv(*mt['y']), mpv(*mt['x']))
            err_fail(i, out, 'atan2_rel', hl, t, abs(t) * P2(-69))
        elif k == 'dom':
            if fp.is_valid(*hl):
                out.append(fail(i, 'asin_acos_domain', a))
        elif k == 'zero':
            if not (hl[0] == 0 and hl[1] == 0):
                out.append(fail(i, 'inverse_trig_zero', a))
        elif k == 'pt':
            t = {'pi/2': m.pi / 2, '-pi/2': -m.pi / 2, 'pi': m.pi}[mt['want']]
            err_fail(i, out, 'inverse_trig_point', hl, t, P2(-100))
        elif k == 'axis':
            y, x = mt['y'], mt['x']
            if y[0] == 0:
                neg_y = math.copysign(1.0, y[0]) < 0
                if x[0] > 0:
                    ok = hl[0] == 0 and hl[1] == 0
                else:
                    ok = a == (negw(PI_W) if neg_y else PI_W)
            else:
                ok = a == (PI2_W if y[0] > 0 else negw(PI2_W))
            if not ok:
                out.append(fail(i, 'atan2_axis', 'atan2(%s, %s) = %s' % (w2(y), w2(x), a)))
    return out

PROPS['C17'] = dict(roots=[r'^TwoFloat\.(asin|acos|atan|atan2)$'], gen=gen_C17, chk=chk_C17, n_quick=300, n_thorough=15000)

# ================================================================================================ C18 hyperbolic

def gen_C18(r, n):
    c = Cases()
    for _ in range(n):
        s = r.choice([1, -1])
        k = r.below(4)
        x = log_uniform_tf(r, -40, 10, sign=s) if k else tf_of_fr(Fr(r.rng(-600 * 2**20, 600 * 2**20), 2**20))
        if abs(V(*x)) <= 600:
            for fn in ('cosh', 'sinh', 'tanh'):
                c.add('TwoFloat.%s %s' % (fn, w2(x)), kind=fn, x=x)
        y = log_uniform_tf(r, -40, 60, sign=s)
        c.add('TwoFloat.asinh %s' % w2(y), kind='asinh', x=y)
        z = tf_of_fr((1 + abs(Fr(r.rng(1, 2**30), 2 ** r.rng(0, 50)))) * Fr(2) ** r.choice([0, 0, 0, r.rng(0, 59)]))
        if 1 < V(*z) <= 2**60:
            c.add('TwoFloat.acosh %s' % w2(z), kind='acosh', x=z)
        w = log_uniform_tf(r, -40, 0, sign=s) if r.below(2) else tf_of_fr(Fr(r.rng(-2**30 + 2**20, 2**30 - 2**20), 2**30))
        if abs(V(*w)) <= 1 - Fr(1, 2**10):
            c.add('TwoFloat.atanh %s' % w2(w), kind='atanh', x=w)
        lo = tf_of_fr(Fr(r.rng(-2**30, 2**30 - 1), 2**30) * r.choice([1, 2**r.rng(0, 20)]))
        if V(*lo) < 1:
            c.add('TwoFloat.acosh %s' % w2(lo), kind='dom', x=lo)
        # domain errors over the whole magnitude range, two-word arguments included (for x below about -2^52 the rounding error of
        # sqrt(x*x - 1) exceeds x + sqrt(x*x - 1) = -1/(2|x|): acosh once returned a finite value there)
        c.add('TwoFloat.acosh %s' % w2(log_uniform_tf(r, -1000, 1000, sign=-1)), kind='dom')
        c.add('TwoFloat.acosh %s' % w2(log_uniform_tf(r, 45, 120, sign=-1)), kind='dom')
        c.add('TwoFloat.acosh %s' % w2(log_uniform_tf(r, -1000, -1, sign=1)), kind='dom')
        c.add('TwoFloat.atanh %s' % w2(log_uniform_tf(r, 1, 1000, sign=s)), kind='dom')
        big = tf_of_fr((1 + abs(Fr(r.rng(0, 2**30), 2 ** r.rng(0, 40)))) * s)
        c.add('TwoFloat.atanh %s' % w2(big), kind='dom', x=big)
    for z in [(0.0, 0.0), (0.0, -0.0), (-0.0, 0.0), (-0.0, -0.0)]:
        for fn in ('sinh', 'tanh', 'asinh', 'atanh'):
            c.add('TwoFloat.%s %s' % (fn, w2(z)), kind='zero')
        c.add('TwoFloat.cosh %s' % w2(z), kind='one')
    c.add('TwoFloat.acosh %s' % w2((1.0, 0.0)), kind='zero')
    c.add('TwoFloat.acosh %s' % w2((1.0, -0.0)), kind='zero')
    # special high words whose argument differs from the special point only in the low word (a test of `self.hi == 1.0` instead of
    # `self == 1.0` is invisible to plain-f64 arguments): acosh just above 1 = (1, lo > 0), and every function at 1/4, 1/2, 1, 2
    for hi_ in (1.0, 0.5, 0.25, 2.0, -1.0, -0.5):
        for _ in range(max(6, n // 20)):
            k_ = r.choice([r.rng(54, 70), r.rng(54, 110), r.rng(54, 1000)])
            lo_ = math.ldexp(1.0 + r.below(2**20) / 2.0**20, -k_ - 1) * abs(hi_) * r.choice([1.0, -1.0])
            x_ = (hi_, lo_)
            if not fp.is_valid(*x_):
                continue
            for fn in ('cosh', 'sinh', 'tanh', 'asinh'):
                c.add('TwoFloat.%s %s' % (fn, w2(x_)), kind=fn, x=x_)
            if V(*x_) > 1:
                c.add('TwoFloat.acosh %s' % w2(x_), kind='acosh', x=x_)
            elif abs(V(*x_)) <= 1 - Fr(1, 2**10):
                c.add('TwoFloat.atanh %s' % w2(x_), kind='atanh', x=x_)
    return c

def chk_C18(c, ans):
    out = []
    m = mp()
    for i, (ln, mt, a) in enumerate(zip(c.lines, c.meta, ans)):
        if a == 'bad-op':
            out.append(fail(i, 'no-answer', a)); continue
        if a == 'PANIC':
            out.append(fail(i, 'no-panic', 'panicked on a valid argument')); continue
        k = mt['kind']
        hl = words(a)
        if k == 'cosh':
            t = m.cosh(mpv(*mt['x'])); err_fail(i, out, 'cosh_rel', hl, t, t * P2(-100))
        elif k in ('sinh', 'tanh', 'atanh'):
            t = getattr(m, k)(mpv(*mt['x'])); err_fail(i, out, k + '_bound', hl, t, abs(t) * P2(-100) + P2(-101))
        elif k == 'asinh':
            t = m.asinh(mpv(*mt['x'])); err_fail(i, out, 'asinh_bound', hl, t, abs(t) * P2(-100) + P2(-98))
        elif k == 'acosh':
            t = m.acosh(mpv(*mt['x'])); err_fail(i, out, 'acosh_bound', hl, t, P2(-100) * (t + 1 / t))
        elif k == 'dom':
            if fp.is_valid(*hl):
                out.append(fail(i, 'hyperbolic_domain', a))
        elif k == 'zero':
            if not (hl[0] == 0 and hl[1] == 0):
                out.append(fail(i, 'hyperbolic_zero', a))
        elif k == 'one':
            if not (hl == (1.0, 0.0)):
                out.append(fail(i, 'cosh_zero', a))
    return out

PROPS['C18'] = dict(roots=[r'^TwoFloat\.(cosh|sinh|tanh|acosh|asinh|atanh)$'], gen=gen_C18, chk=chk_C18, n_quick=250, n_thorough=12000)


# ------------------------------------------------------------------------------------------------ corpus lines -> meta
def corpus_unary(line):
    w = line.split()
    fn = w[0].split('.')[-1]
    if len(w) == 3:
        x = (unhx(w[1]), unhx(w[2]))
        if fn == 'acosh' and fp.isfin(x[0]) and V(*x) < 1:
            return dict(kind='dom', x=x)
        return dict(kind=fn, x=x)
    if len(w) == 5 and fn == 'powf':
        x, y = (unhx(w[1]), unhx(w[2])), (unhx(w[3]), unhx(w[4]))
        return dict(kind='powf_neg_int' if x[0] < 0 else 'powf', x=x, y=y)
    return None
for _p in ('C14', 'C15', 'C16', 'C17', 'C18'):
    PROPS[_p]['corpus_meta'] = corpus_unary

# ================================================================================================ C20 text output and serde

def gen_C20(r, n):
    c = Cases()
    def val():
        k = r.below(8)
        if k == 0:
            h = f_in(r, -1000, 1000, zero=False); return (h, r.choice([0.0, -0.0]))
        if k == 1:
            h = fp.mant_exp(r, r.rng(-1021, -960)); return (h, fp.fbits(r.rng(1, 2**20)) * r.choice([1, -1]))     # subnormal low word
        if k == 2:
            return (r.choice([0.0, -0.0]), r.choice([0.0, -0.0]))
        if k == 3:
            return tf_in(r, r.choice([-1000, 300]), r.choice([-300, 1000]) if r.below(2) else 1000)
        return tf_in(r, -40, 70)
    for _ in range(n):
        t = val()
        if not fp.is_valid(*t):
            continue
        for tr in ('d', 'e', 'E'):
            for plus in (0, 1):
                for prec in (-1, r.rng(0, 40)):
                    c.add('fmt %s %d %d %s' % (tr, plus, prec, w2(t)), kind='fmt', impl_only=True, t=t, tr=tr, plus=plus, prec=prec)
                    c.add('render %s %d %d %s' % (tr, plus, prec, hx(t[0])), kind='rhi', impl_only=True)
                    c.add('render %s 0 %d %s' % (tr, prec, hx(abs(t[1]))), kind='rlo', impl_only=True)
        c.add('ser %s' % w2(t), kind='ser', t=t)
        c.add('de_seq 2 %s' % w2(t), kind='de', t=t, form='seq', want='ok')
        c.add('de_map 2 hi %s lo %s' % (hx(t[0]), hx(t[1])), kind='de', t=t, form='map', want='ok')
        c.add('de_map 2 lo %s hi %s' % (hx(t[1]), hx(t[0])), kind='de', t=t, form='map', want='ok')
    for h in SPECIAL_WORDS:
        for l in SPECIAL_WORDS:
            p = (h, l)
            want = 'ok' if (fp.isfin(h) and h + l == h) else 'err'
            c.add('de_seq 2 %s' % w2(p), kind='de', t=p, want=want)
            c.add('de_map 2 hi %s lo %s' % (hx(h), hx(l)), kind='de', t=p, want=want)
            c.add('de_map 2 lo %s hi %s' % (hx(l), hx(h)), kind='de', t=p, want=want)
    for _ in range(n):
        # arbitrary word pairs, overlapping or not, to the deserializer
        p = fp.any_tf(r) if r.below(2) else (fp.any_f64(r), fp.any_f64(r))
        want = 'ok' if (fp.isfin(p[0]) and p[0] + p[1] == p[0]) else 'err'
        c.add('de_seq 2 %s' % w2(p), kind='de', t=p, want=want)
        c.add('de_map 2 hi %s lo %s' % (hx(p[0]), hx(p[1])), kind='de', t=p, want=want)
        c.add('de_map 2 lo %s hi %s' % (hx(p[1]), hx(p[0])), kind='de', t=p, want=want)
        t = tf_in(r, -100, 100)
        k = r.below(6)
        bad = ['de_seq 1 %s' % hx(t[0]), 'de_seq 0', 'de_seq 3 %s %s' % (w2(t), hx(0.0)), 'de_map 1 hi %s' % hx(t[0]), 'de_map 1 lo %s' % hx(t[1]),
               'de_map 0', 'de_map 2 hi %s hi %s' % (hx(t[0]), hx(t[0])), 'de_map 3 hi %s lo %s lo %s' % (hx(t[0]), hx(t[1]), hx(t[1])),
               'de_map 3 hi %s lo %s extra %s' % (hx(t[0]), hx(t[1]), hx(0.0)), 'de_map 2 high %s lo %s' % (hx(t[0]), hx(t[1])),
               'de_map 3 lo %s lo %s hi %s' % (hx(t[1]), hx(t[1]), hx(t[0]))]
        # duplicates / shapes whose FIRST value is a special word (NaN, infinities, zeros): a sentinel-based visitor would miss them
        sp = hx(r.choice([float('nan'), float('inf'), float('-inf'), 0.0, -0.0]))
        bad += ['de_map 3 hi %s hi %s lo %s' % (sp, hx(t[0]), hx(t[1])), 'de_map 3 lo %s hi %s lo %s' % (sp, hx(t[0]), hx(t[1])),
                'de_map 3 hi %s lo %s hi %s' % (sp, hx(t[1]), hx(t[0])), 'de_map 3 lo %s lo %s hi %s' % (sp, hx(t[1]), hx(t[0])),
                'de_map 3 hi %s lo %s lo %s' % (hx(t[0]), sp, hx(t[1])), 'de_map 1 hi %s' % sp, 'de_map 1 lo %s' % sp,
                'de_seq 3 %s %s %s' % (sp, hx(t[0]), hx(t[1])), 'de_seq 1 %s' % sp]
        c.add(r.choice(bad), kind='de', t=t, want='err')
        c.add(r.choice(bad[-9:]), kind='de', t=t, want='err')
    return c

def chk_C20(c, ans):
    out = []
    i = 0
    n = len(c.lines)
    while i < n:
        m, a = c.meta[i], ans[i]
        if a in ('PANIC', 'bad-op'):
            out.append(fail(i, 'no-panic', a)); i += 1; continue
        if m['kind'] == 'fmt':
            full = a.strip('"')
            rhi_s, rhi_back = ans[i + 1].rsplit(' ', 1)
            rlo_s, rlo_back = ans[i + 2].rsplit(' ', 1)
            rhi_s, rlo_s = rhi_s.strip('"'), rlo_s.strip('"')
            t = m['t']
            sign = '-' if math.copysign(1.0, t[1]) < 0 else '+'
            want = '%s %s %s' % (rhi_s, sign, rlo_s)
            m['rhi'], m['rlo'] = rhi_s, rlo_s
            if full != want:
                out.append(fail(i, 'fmt_shape', 'got "%s" want "%s"' % (full, want)))
            if m['prec'] < 0:
                if rhi_back != hx(t[0]) or rlo_back != hx(abs(t[1])):
                    out.append(fail(i, 'fmt_parse_back', '"%s" parses to %s / %s' % (full, rhi_back, rlo_back)))
            if m['plus'] and not full[:1] in '+-':
                out.append(fail(i, 'fmt_plus_sign', full))
            i += 3; continue
        if m['kind'] == 'ser':
            t = m['t']
            if a != 'struct TwoFloat 2 hi=%s lo=%s' % (hx(t[0]), hx(t[1])):
                out.append(fail(i, 'ser_shape', a))
        elif m['kind'] == 'de':
            t = m['t']
            if m['want'] == 'ok':
                if a != 'Ok(%s)' % w2(t):
                    out.append(fail(i, 'de_ser_roundtrip' if m.get('form') else 'de_accepts_valid', 'got %s' % a))
            else:
                if a.startswith('Ok'):
                    hl = words(a)
                    out.append(fail(i, 'de_rejects', 'accepted: %s' % a))
        i += 1
    return out

def shape_C20(c, ans):
    """model side of the formatting shape: Hand.fmtShape on the renderings the implementation's core::fmt produced"""
    c2 = Cases()
    for ln, m, a in zip(c.lines, c.meta, ans):
        if m['kind'] == 'fmt' and 'rhi' in m and ' ' not in m['rhi'] and ' ' not in m['rlo']:
            c2.add('fmt_shape %s %s %s' % (hx(m['t'][1]), m['rhi'], m['rlo']), want=a, clause='fmt_model_correspondence')
    return c2

PROPS['C20'] = dict(roots=[r'^convert\.impl_TryFrom_tup_f64_f64_for_TwoFloat', r'^base\.no_overlap$'], gen=gen_C20, chk=chk_C20,
                    n_quick=150, n_thorough=5000, harness='serde', hand_sources=['src/format.rs', 'src/serialization.rs'], followups=[(shape_C20, chk_want, False, 'model')])
