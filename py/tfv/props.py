"""per-property case generators and search oracles (DESIGN §5, §6)"""
import math, re
from fractions import Fraction as Fr
from . import fp
from .fp import hx, unhx
from .oracle import *

A = 'arithmetic.'
def opname(tr, lhs, rhs):
    m = {'Add': 'add', 'Sub': 'sub', 'Mul': 'mul', 'Div': 'div', 'Rem': 'rem'}[tr]
    return '%simpl_%s_%s_for_%s.%s' % (A, tr, rhs, lhs, m)
def asgname(tr, rhs):
    m = {'Add': 'add_assign', 'Sub': 'sub_assign', 'Mul': 'mul_assign', 'Div': 'div_assign', 'Rem': 'rem_assign'}[tr]
    return '%simpl_%sAssign_%s_for_TwoFloat.%s' % (A, tr, rhs, m)

def TT(tr): return opname(tr, 'rTwoFloat', 'rTwoFloat')
def TF_(tr): return opname(tr, 'rTwoFloat', 'rf64')
def FT(tr): return opname(tr, 'rf64', 'rTwoFloat')
NEG = A + 'impl_Neg_for_rTwoFloat.neg'
EQ_TT = 'base.impl_PartialEq_TwoFloat_for_TwoFloat.eq'
EQ_TF = 'base.impl_PartialEq_f64_for_TwoFloat.eq'
EQ_FT = 'base.impl_PartialEq_TwoFloat_for_f64.eq'
CMP_TT = 'base.impl_PartialOrd_TwoFloat_for_TwoFloat.partial_cmp'
CMP_TF = 'base.impl_PartialOrd_f64_for_TwoFloat.partial_cmp'
CMP_FT = 'base.impl_PartialOrd_TwoFloat_for_f64.partial_cmp'

def w2(t):
    return '%s %s' % (hx(t[0]), hx(t[1]))

class Cases:
    def __init__(self):
        self.lines, self.meta = [], []
    def add(self, line, **meta):
        self.lines.append(line)
        self.meta.append(meta)
        return len(self.lines) - 1

def fail(idx, clause, detail):
    return {'idx': idx, 'clause': clause, 'detail': detail}

def args_of(line):
    return line.split()[1:]

# ------------------------------------------------------------------------------------------------ operand generators

def tf_in(r, emin, emax, zero=True):
    return fp.valid_tf(r, emin, emax, allow_zero=zero)

def f_in(r, emin, emax, zero=True):
    if zero and r.below(16) == 0:
        return r.choice([0.0, -0.0])
    return fp.mant_exp(r, r.rng(emin, emax - 1))

def cancel_partner(r, a):
    """b close to -a with a random number of matching leading bits (catastrophic cancellation at every depth)"""
    h, l = a
    k = r.below(110)
    if k == 0:
        return (-h, -l)
    if k < 53:
        d = fp.ulp(h) * r.rng(1, 3) * (2 ** (52 - k)) if h != 0 else Fr(0)
        nh = fp.rn(-Fr(h) + d * r.choice([1, -1]))
        s, t = fp.two_sum(nh, -l)
        return (s, t) if fp.is_valid(s, t) else (-h, -l)
    # same high word, low words differ
    if l == 0:
        return (-h, fp.rn(fp.ulp(h) / 2 ** r.rng(2, 60)) * r.choice([1, -1]))
    nl = math.nextafter(-l, r.choice([math.inf, -math.inf])) if r.below(2) else -l * (1 + 2.0 ** -r.rng(1, 50))
    return (-h, nl) if fp.is_valid(-h, nl) else (-h, -l)

# ================================================================================================ C02

def gen_C02(r, n):
    c = Cases()
    for _ in range(n):
        k = r.below(10)
        a = fp.any_f64(r, finite=True) if k < 7 else fp.mant_exp(r, r.rng(-1074, 1022))
        g = r.below(6)
        if g == 0:
            b = a * r.choice([1, -1])
        elif g == 1:
            b = fp.mant_exp(r, max(-1074, min(1022, (math.frexp(a)[1] if a else 0) + r.rng(-70, 70))))
        elif g == 2:
            b = fp.mant_exp(r, r.rng(-1074, -1000))   # subnormal / tiny
        else:
            b = fp.any_f64(r, finite=True)
        for op in ('new_add', 'new_sub', 'new_mul'):
            c.add('TwoFloat.%s %s %s' % (op, hx(a), hx(b)), op=op)
        a2, b2 = f_in(r, -480, 480, zero=False), f_in(r, -480, 480, zero=False)
        c.add('TwoFloat.new_div %s %s' % (hx(a2), hx(b2)), op='new_div')
        x = fp.any_f64(r)
        c.add('TwoFloat.from_f64 %s' % hx(x), op='from')
        c.add('convert.impl_From_f64_for_TwoFloat.from %s' % hx(x), op='from')
    return c

def chk_C02(c, ans):
    out = []
    B1023 = Fr(2) ** 1023
    for i, (ln, m, a) in enumerate(zip(c.lines, c.meta, ans)):
        if a in ('PANIC', 'bad-op'):
            out.append(fail(i, 'no-panic', a)); continue
        ar = [unhx(x) for x in args_of(ln)]
        h, l = words(a)
        op = m['op']
        if op == 'from':
            if not (hx(h) == hx(ar[0]) and hx(l) == hx(0.0)):
                out.append(fail(i, 'from_f64_exact', 'expected (x, +0)'))
            continue
        x, y = ar
        if not finite(x, y):
            continue
        if op in ('new_add', 'new_sub'):
            if not (abs(Fr(x)) < B1023 and abs(Fr(y)) < B1023):
                continue
            ex = Fr(x) + Fr(y) if op == 'new_add' else Fr(x) - Fr(y)
            if h != fp.rn(ex) or not finite(h, l) or V(h, l) != ex:
                out.append(fail(i, op + '_exact', 'hi+lo != exact or hi != RN'))
        elif op == 'new_mul':
            ex = Fr(x) * Fr(y)
            if ex == 0 or (Fr(2) ** -960 <= abs(ex) < B1023):
                if h != fp.rn(ex) or not finite(h, l) or V(h, l) != ex:
                    out.append(fail(i, 'new_mul_exact', 'hi+lo != exact product'))
        elif op == 'new_div':
            ex = Fr(x) / Fr(y)
            if not finite(h, l):
                out.append(fail(i, 'new_div_finite', 'non-finite')); continue
            if abs(Fr(h) - ex) > fp.ulp(h):
                out.append(fail(i, 'new_div_hi_ulp', fmt_err(Fr(h), ex)))
            if not rel_ok(V(h, l), ex, 3 * U2):
                out.append(fail(i, 'new_div_bound', fmt_err(V(h, l), ex)))
    return out

# ================================================================================================ C03 / C04 / C05 / C19 arithmetic bounds

def arith_pairs(r, n, emin, emax, cancel=False):
    for _ in range(n):
        a = tf_in(r, emin, emax)
        k = r.below(8)
        if cancel and k < 3:
            b = cancel_partner(r, a)
        elif k == 3:
            e = (math.frexp(a[0])[1] if a[0] else 0) + r.rng(-110, 110)
            b = tf_in(r, max(emin, min(emax - 1, e)), max(emin + 1, min(emax, e + 1)))
        else:
            b = tf_in(r, emin, emax)
        yield a, b

def gen_C03(r, n):
    c = Cases()
    for a, b in arith_pairs(r, n, -1000, 1000, cancel=True):
        for tr in ('Add', 'Sub'):
            c.add('%s %s %s' % (TT(tr), w2(a), w2(b)), kind='tt', tr=tr)
            c.add('%s %s %s' % (asgname(tr, 'rTwoFloat'), w2(a), w2(b)), kind='tt', tr=tr)
            f = b[0]
            c.add('%s %s %s' % (TF_(tr), w2(a), hx(f)), kind='tf', tr=tr)
            c.add('%s %s %s' % (FT(tr), hx(f), w2(a)), kind='ft', tr=tr)
            c.add('%s %s %s' % (asgname(tr, 'rf64'), w2(a), hx(f)), kind='tf', tr=tr)
    # iterator sums: a few short sequences
    for _ in range(max(4, n // 50)):
        k = r.rng(0, 6)
        xs = [tf_in(r, -100, 100) for _ in range(k)]
        c.add('sum_tf %d %s' % (k, ' '.join(w2(x) for x in xs)), kind='sum', xs=xs)
        fs = [f_in(r, -100, 100) for _ in range(k)]
        c.add('sum_f64 %d %s' % (k, ' '.join(hx(x) for x in fs)), kind='sumf', xs=fs)
    return c

def chk_C03(c, ans):
    out = []
    BTT = 3 * U2 + 13 * U3
    for i, (ln, m, a) in enumerate(zip(c.lines, c.meta, ans)):
        if a in ('PANIC', 'bad-op'):
            out.append(fail(i, 'no-panic', a)); continue
        if m['kind'] in ('sum', 'sumf'):
            m['ans'] = a
            continue
        ar = [unhx(x) for x in args_of(ln)]
        sgn = 1 if m['tr'] == 'Add' else -1
        if m['kind'] == 'tt':
            ex = V(ar[0], ar[1]) + sgn * V(ar[2], ar[3]); bound = BTT
        elif m['kind'] == 'tf':
            ex = V(ar[0], ar[1]) + sgn * Fr(ar[2]); bound = 2 * U2
        else:
            ex = Fr(ar[0]) + sgn * V(ar[1], ar[2]); bound = 2 * U2
        h, l = words(a)
        if not finite(h, l):
            if abs(ex) < Fr(2) ** 1023:
                out.append(fail(i, 'finite', 'non-finite sum of in-range operands'))
            continue
        R = V(h, l)
        if ex == 0:
            if R != 0:
                out.append(fail(i, 'zero_sum', 'exact sum is 0, got %s' % float(R)))
        elif not rel_ok(R, ex, bound):
            out.append(fail(i, 'add_bound_' + m['kind'], fmt_err(R, ex)))
    return out

def sum_followup(c, ans):
    """Iterator::sum == left fold with + from zero: re-run the fold through the operator and compare"""
    c2 = Cases()
    return c2

def gen_C04(r, n):
    c = Cases()
    for a, b in arith_pairs(r, n, -450, 450):
        c.add('%s %s %s' % (TT('Mul'), w2(a), w2(b)), kind='tt')
        c.add('%s %s %s' % (asgname('Mul', 'rTwoFloat'), w2(a), w2(b)), kind='tt')
        f = b[0] if b[0] != 0 or r.below(2) else 1.5
        c.add('%s %s %s' % (TF_('Mul'), w2(a), hx(f)), kind='tf')
        c.add('%s %s %s' % (FT('Mul'), hx(f), w2(a)), kind='ft')
        c.add('%s %s %s' % (asgname('Mul', 'rf64'), w2(a), hx(f)), kind='tf')
        # exact clauses
        k = r.rng(-400, 400)
        p = math.ldexp(1.0, k) * r.choice([1, -1])
        for f2 in (1.0, -1.0, p, 0.0, -0.0):
            c.add('%s %s %s' % (TF_('Mul'), w2(a), hx(f2)), kind='tf', exact=True)
            c.add('%s %s %s' % (TT('Mul'), w2(a), w2((f2, 0.0))), kind='tt', exact=True)
            c.add('%s %s %s' % (FT('Mul'), hx(f2), w2(a)), kind='ft', exact=True)
    return c

def chk_C04(c, ans):
    out = []
    tiny = Fr(2) ** -1074
    for i, (ln, m, a) in enumerate(zip(c.lines, c.meta, ans)):
        if a in ('PANIC', 'bad-op'):
            out.append(fail(i, 'no-panic', a)); continue
        ar = [unhx(x) for x in args_of(ln)]
        if m['kind'] == 'tt':
            x, y = V(ar[0], ar[1]), V(ar[2], ar[3]); bound = 5 * U2
            xw = (ar[0], ar[1]); yw = (ar[2], ar[3])
        elif m['kind'] == 'tf':
            x, y = V(ar[0], ar[1]), Fr(ar[2]); bound = 2 * U2
            xw = (ar[0], ar[1]); yw = (ar[2], 0.0)
        else:
            x, y = Fr(ar[0]), V(ar[1], ar[2]); bound = 2 * U2
            xw = (ar[0], 0.0); yw = (ar[1], ar[2])
        ex = x * y
        h, l = words(a)
        if not finite(h, l):
            out.append(fail(i, 'finite', 'non-finite product of in-range operands')); continue
        R = V(h, l)
        if ex == 0:
            if R != 0:
                out.append(fail(i, 'mul_zero', 'zero factor, got %s' % float(R)))
            continue
        if m.get('exact'):
            # ±1 exact; power of two exact when the scaled low word does not underflow (is a multiple of 2^-1074)
            lo_scaled = [Fr(w[1]) * abs(Fr(o[0])) for w, o in ((xw, yw), (yw, xw))]
            no_underflow = all(q.denominator <= 2 ** 1074 for q in lo_scaled) and abs(ex) >= Fr(2) ** -1022
            if no_underflow and R != ex:
                out.append(fail(i, 'mul_exact_pow2', fmt_err(R, ex)))
            continue
        if not rel_ok(R, ex, bound):
            out.append(fail(i, 'mul_bound_' + m['kind'], fmt_err(R, ex)))
    return out

def gen_C05(r, n):
    c = Cases()
    for a, b in arith_pairs(r, n, -450, 450):
        if b[0] == 0:
            b = (1.5, 0.0)
        a = a if a[0] != 0 or r.below(4) else (3.0, 0.0)
        c.add('%s %s %s' % (TT('Div'), w2(a), w2(b)), kind='tt')
        c.add('%s %s %s' % (asgname('Div', 'rTwoFloat'), w2(a), w2(b)), kind='tt')
        c.add('%s %s %s' % (TF_('Div'), w2(a), hx(b[0])), kind='tf')
        c.add('%s %s %s' % (asgname('Div', 'rf64'), w2(a), hx(b[0])), kind='tf')
        c.add('%s %s %s' % (FT('Div'), hx(a[0] if a[0] != 0 else 1.0), w2(b)), kind='ft')
        c.add('TwoFloat.recip %s' % w2(b), kind='recip')
        # exact clauses
        if a[0] != 0:
            c.add('%s %s %s' % (TT('Div'), w2(a), w2(a)), kind='tt', exact='self')
        k = r.rng(-400, 400)
        p = math.ldexp(1.0, k) * r.choice([1, -1])
        for f2 in (1.0, -1.0, p):
            c.add('%s %s %s' % (TF_('Div'), w2(a), hx(f2)), kind='tf', exact='pow2')
            c.add('%s %s %s' % (TT('Div'), w2(a), w2((f2, 0.0))), kind='tt', exact='pow2')
        c.add('%s %s %s' % (TT('Div'), w2((0.0, 0.0)), w2(b)), kind='tt', exact='zero')
        c.add('%s %s %s' % (TF_('Div'), w2((0.0, 0.0)), hx(b[0])), kind='tf', exact='zero')
        c.add('%s %s %s' % (FT('Div'), hx(0.0), w2(b)), kind='ft', exact='zero')
    return c

def chk_C05(c, ans):
    out = []
    for i, (ln, m, a) in enumerate(zip(c.lines, c.meta, ans)):
        if a in ('PANIC', 'bad-op'):
            out.append(fail(i, 'no-panic', a)); continue
        ar = [unhx(x) for x in args_of(ln)]
        k = m['kind']
        if k == 'tt':
            x, y, bound = V(ar[0], ar[1]), V(ar[2], ar[3]), 16 * U2
            xlo = ar[1]
        elif k == 'tf':
            x, y, bound = V(ar[0], ar[1]), Fr(ar[2]), 3 * U2
            xlo = ar[1]
        elif k == 'ft':
            x, y, bound = Fr(ar[0]), V(ar[1], ar[2]), 16 * U2
            xlo = 0.0
        else:
            x, y, bound = Fr(1), V(ar[0], ar[1]), 16 * U2
            xlo = 0.0
        if y == 0:
            continue
        ex = x / y
        h, l = words(a)
        if not finite(h, l):
            out.append(fail(i, 'finite', 'non-finite quotient of in-range operands')); continue
        R = V(h, l)
        e = m.get('exact')
        if e == 'self':
            if not (h == 1.0 and l == 0.0):
                out.append(fail(i, 'div_self', 'x/x = (%s, %s)' % (hx(h), hx(l))))
        elif e == 'zero':
            if R != 0:
                out.append(fail(i, 'zero_div', '0/x != 0'))
        elif e == 'pow2':
            lo_scaled = Fr(xlo) / abs(y)
            if lo_scaled.denominator <= 2 ** 1074 and (ex == 0 or abs(ex) >= Fr(2) ** -1022) and R != ex:
                out.append(fail(i, 'div_exact_pow2', fmt_err(R, ex)))
        elif ex == 0:
            if R != 0:
                out.append(fail(i, 'zero_div', '0/x != 0'))
        elif not rel_ok(R, ex, bound):
            out.append(fail(i, 'div_bound_' + k, fmt_err(R, ex)))
    return out

def gen_C19(r, n):
    c = Cases()
    for _ in range(n):
        k = r.below(6)
        b = tf_in(r, -400, 400, zero=False)
        if k <= 1:
            # small integers: exact clause
            ai, bi = r.rng(-2**52, 2**52), r.rng(1, 2**r.rng(1, 52)) * r.choice([1, -1])
            a, b = (float(ai), 0.0), (float(bi), 0.0)
            exact = True
        else:
            exact = False
            q = r.choice([r.rng(-40, 40), r.rng(-2**40, 2**40), 0])
            if k == 2:
                # a = q*b (+ tiny): quotient at / next to an integer
                exq = V(*b) * q
                hh = fp.rn(exq); ll = fp.rn(exq - Fr(hh))
                a = (hh, ll) if fp.is_valid(hh, ll) and fp.isfin(hh) else tf_in(r, -400, 400)
                if r.below(2) and a[1] != 0:
                    a = (a[0], math.nextafter(a[1], r.choice([math.inf, -math.inf])))
                    if not fp.is_valid(*a):
                        a = (a[0], 0.0)
            else:
                e = math.frexp(b[0])[1] + r.rng(-30, 85)
                a = tf_in(r, max(-400, min(399, e)), max(-399, min(400, e + 1)))
        if b[0] == 0 or a[0] != 0 and abs(Fr(a[0]) / Fr(b[0])) > Fr(2) ** 89:
            continue
        for op in (TT('Rem'), asgname('Rem', 'rTwoFloat')):
            c.add('%s %s %s' % (op, w2(a), w2(b)), kind='rem', a=a, b=b, exact=exact)
        c.add('%s %s %s' % (TF_('Rem'), w2(a), hx(b[0])), kind='rem', a=a, b=(b[0], 0.0), exact=exact)
        c.add('%s %s %s' % (asgname('Rem', 'rf64'), w2(a), hx(b[0])), kind='rem', a=a, b=(b[0], 0.0), exact=exact)
        c.add('%s %s %s' % (FT('Rem'), hx(a[0]), w2(b)), kind='rem', a=(a[0], 0.0), b=b, exact=exact)
        c.add('TwoFloat.div_euclid %s %s' % (w2(a), w2(b)), kind='dive', a=a, b=b, exact=exact)
        c.add('TwoFloat.rem_euclid %s %s' % (w2(a), w2(b)), kind='reme', a=a, b=b, exact=exact)
    return c

def chk_C19(c, ans):
    out = []
    for i, (ln, m, a) in enumerate(zip(c.lines, c.meta, ans)):
        if a in ('PANIC', 'bad-op'):
            out.append(fail(i, 'no-panic', a)); continue
        av, bv = V(*m['a']), V(*m['b'])
        if bv == 0:
            continue
        q = av / bv
        if abs(q) > Fr(2) ** 90:
            continue
        h, l = words(a)
        if not finite(h, l):
            out.append(fail(i, 'finite', 'non-finite')); continue
        R = V(h, l)
        tol = 16 * U2 * max(abs(av), abs(bv))
        kt = int(q)  # truncation toward zero (Fraction.__trunc__)
        near = q != 0 and min(abs(q - round(q)), 1) <= Fr(1, 2 ** 98) * abs(q)
        cands_t = [kt] + ([kt - 1, kt + 1] if near else [])
        fl = math.floor(q) if bv > 0 else math.ceil(q)
        cands_e = [fl] + ([fl - 1, fl + 1] if near else [])
        k = m['kind']
        if m['exact']:
            exv = {'rem': av - kt * bv, 'dive': Fr(fl), 'reme': av - fl * bv}[k]
            if R != exv:
                out.append(fail(i, k + '_exact_int', 'got %s want %s' % (float(R), float(exv))))
            continue
        if k == 'rem':
            if not any(abs(R - (av - kk * bv)) <= tol for kk in cands_t):
                out.append(fail(i, 'rem_tolerance', 'r=%s q=%s' % (float(R), float(q))))
        elif k == 'dive':
            if not fp.is_valid(h, l) or R not in [Fr(x) for x in cands_e]:
                out.append(fail(i, 'div_euclid', 'got %s want %s' % (float(R), fl)))
        else:
            if not any(abs(R - (av - kk * bv)) <= tol for kk in cands_e):
                out.append(fail(i, 'rem_euclid_tolerance', 'r=%s q=%s' % (float(R), float(q))))
    return out

# ================================================================================================ C06

SPECIAL_WORDS = [math.nan, math.inf, -math.inf, 0.0, -0.0, 1.0, -1.0, 2.0 ** -53, 5e-324, 1.7976931348623157e308]

def gen_C06(r, n):
    c = Cases()
    # every combination of special words in the four positions (non-finite / NaN-containing values are
    # reachable through the API: overflow, 0/0, new_add(inf, 1) = (inf, NaN) ...)
    combos = [(h, l) for h in SPECIAL_WORDS for l in SPECIAL_WORDS]
    for a in combos:
        for _ in range(max(1, n // 200)):
            b = r.choice(combos)
            for op in (EQ_TT, CMP_TT):
                c.add('%s %s %s' % (op, w2(a), w2(b)), kind=op, a=a, b=b)
                c.add('%s %s %s' % (op, w2(b), w2(a)), kind=op, a=b, b=a)
    for a in combos:
        if a[0] == a[0] and not fp.isfin(a[0]) or a[1] != a[1]:
            for b in combos:
                if any(x != x or math.isinf(x) for x in b):
                    for op in (EQ_TT, CMP_TT):
                        c.add('%s %s %s' % (op, w2(a), w2(b)), kind=op, a=a, b=b)
                        c.add('%s %s %s' % (op, w2(b), w2(a)), kind=op, a=b, b=a)
    for _ in range(n):
        a = fp.any_tf(r)
        k = r.below(8)
        if k == 0:
            b = a
        elif k == 1 and fp.is_valid(*a):
            b = (a[0], -a[1]) if a[1] == 0 else (a[0], math.nextafter(a[1], r.choice([math.inf, -math.inf])))
        elif k == 2:
            b = (-a[0], -a[1])
        elif k == 3:
            b = (a[0], 0.0)
        elif k == 4:
            b = (math.nextafter(a[0], r.choice([math.inf, -math.inf])) if fp.isfin(a[0]) else a[0], a[1])
        else:
            b = fp.any_tf(r)
        cf = r.choice([a[0], b[0], fp.any_f64(r)])
        for op in (EQ_TT, CMP_TT):
            c.add('%s %s %s' % (op, w2(a), w2(b)), kind=op, a=a, b=b)
            c.add('%s %s %s' % (op, w2(b), w2(a)), kind=op, a=b, b=a)
        c.add('%s %s %s' % (EQ_TF, w2(a), hx(cf)), kind='eq_tf', a=a, c=cf)
        c.add('%s %s %s' % (EQ_FT, hx(cf), w2(a)), kind='eq_ft', a=a, c=cf)
        c.add('%s %s %s' % (CMP_TF, w2(a), hx(cf)), kind='cmp_tf', a=a, c=cf)
        c.add('%s %s %s' % (CMP_FT, hx(cf), w2(a)), kind='cmp_ft', a=a, c=cf)
        c.add('TwoFloat.min %s %s' % (w2(a), w2(b)), kind='min', a=a, b=b)
        c.add('TwoFloat.max %s %s' % (w2(a), w2(b)), kind='max', a=a, b=b)
        c.add('TwoFloat.abs %s' % w2(a), kind='abs', a=a)
        c.add('TwoFloat.is_sign_negative %s' % w2(a), kind='isneg', a=a)
        c.add('TwoFloat.is_sign_positive %s' % w2(a), kind='ispos', a=a)
        c.add('TwoFloat.signum %s' % w2(a), kind='signum', a=a)
        c.add('TwoFloat.copysign %s %s' % (w2(a), w2(b)), kind='copysign', a=a, b=b)
    return c

def cmp3(x, y):
    return 'Some(Less)' if x < y else ('Some(Equal)' if x == y else 'Some(Greater)')

def chk_C06(c, ans):
    out = []
    idx = {}
    for i, (ln, m, a) in enumerate(zip(c.lines, c.meta, ans)):
        if a in ('PANIC', 'bad-op'):
            out.append(fail(i, 'no-panic', a)); continue
        k = m['kind']
        A_ = m['a']
        va = fp.is_valid(*A_)
        nanA = any(x != x for x in A_)
        if k in (EQ_TT, CMP_TT):
            B_ = m['b']
            vb = fp.is_valid(*B_)
            nanB = any(x != x for x in B_)
            idx[(k, w2(A_), w2(B_))] = a
            if nanA or nanB:
                want = 'false' if k == EQ_TT else 'None'
                if a != want:
                    out.append(fail(i, 'nan_word_unordered', 'got %s' % a))
            elif va and vb:
                want = cmp3(V(*A_), V(*B_))
                if k == EQ_TT:
                    want = 'true' if want == 'Some(Equal)' else 'false'
                if a != want:
                    out.append(fail(i, 'cmp_exact', 'got %s want %s' % (a, want)))
        elif k in ('eq_tf', 'eq_ft', 'cmp_tf', 'cmp_ft'):
            cf = m['c']
            if not va:
                continue
            if cf != cf:
                want = 'false' if k.startswith('eq') else 'None'
            else:
                x, y = V(*A_), (Fr(cf) if fp.isfin(cf) else (Fr(10) ** 400 * (1 if cf > 0 else -1)))
                if k.endswith('ft'):
                    x, y = y, x
                want = cmp3(x, y)
                if k.startswith('eq'):
                    want = 'true' if want == 'Some(Equal)' else 'false'
            if a != want:
                out.append(fail(i, 'cmp_f64_exact', 'got %s want %s' % (a, want)))
        elif k in ('min', 'max'):
            B_ = m['b']
            vb = fp.is_valid(*B_)
            h, l = words(a)
            got = (hx(h), hx(l))
            if va and vb:
                x, y = V(*A_), V(*B_)
                if x == y:
                    ok = got in ((hx(A_[0]), hx(A_[1])), (hx(B_[0]), hx(B_[1])))
                else:
                    w = A_ if ((x < y) == (k == 'min')) else B_
                    ok = got == (hx(w[0]), hx(w[1]))
                if not ok:
                    out.append(fail(i, k + '_exact', 'got %s' % a))
            elif va != vb:
                w = A_ if va else B_
                if got != (hx(w[0]), hx(w[1])):
                    out.append(fail(i, k + '_skip_invalid', 'got %s' % a))
        elif k == 'abs':
            if va:
                h, l = words(a)
                if V(h, l) != abs(V(*A_)):
                    out.append(fail(i, 'abs_exact', 'got %s' % a))
        elif k in ('isneg', 'ispos'):
            if va and V(*A_) != 0:
                neg = V(*A_) < 0
                want = 'true' if (neg == (k == 'isneg')) else 'false'
                if a != want:
                    out.append(fail(i, 'sign_query', 'got %s' % a))
        elif k == 'signum':
            if va and V(*A_) != 0:
                h, l = words(a)
                want = 1 if V(*A_) > 0 else -1
                if V(h, l) != want:
                    out.append(fail(i, 'signum', 'got %s' % a))
        elif k == 'copysign':
            B_ = m['b']
            if va and fp.is_valid(*B_) and V(*A_) != 0 and V(*B_) != 0:
                h, l = words(a)
                want = abs(V(*A_)) * (1 if V(*B_) > 0 else -1)
                if V(h, l) != want:
                    out.append(fail(i, 'copysign', 'got %s' % a))
    # symmetry of == and == <-> Some(Equal)
    for i, (ln, m, a) in enumerate(zip(c.lines, c.meta, ans)):
        if m['kind'] == EQ_TT:
            A_, B_ = m['a'], m['b']
            rev = idx.get((EQ_TT, w2(B_), w2(A_)))
            if rev is not None and rev != a:
                out.append(fail(i, 'eq_symm', 'a==b is %s but b==a is %s' % (a, rev)))
            pc = idx.get((CMP_TT, w2(A_), w2(B_)))
            if pc is not None and ((a == 'true') != (pc == 'Some(Equal)')):
                out.append(fail(i, 'eq_iff_partial_cmp_equal', '== %s, partial_cmp %s' % (a, pc)))
    return out

# ================================================================================================ C07

def gen_C07(r, n, thorough=False):
    c = Cases()
    def add(a, b):
        c.add('base.no_overlap %s %s' % (hx(a), hx(b)), kind='no', a=a, b=b)
        c.add('TwoFloat.is_valid %s %s' % (hx(a), hx(b)), kind='iv', a=a, b=b)
        c.add('convert.impl_TryFrom_tup_f64_f64_for_TwoFloat.try_from %s %s' % (hx(a), hx(b)), kind='try', a=a, b=b)
        c.add('convert.impl_TryFrom_arr2_f64_for_TwoFloat.try_from %s %s' % (hx(a), hx(b)), kind='try', a=a, b=b)
    # exponent grid x mantissa classes x thresholds
    exps = list(range(-1074, 1024)) if thorough else [r.rng(-1074, 1023) for _ in range(max(8, n // 60))] + [-1074, -1073, -1023, -1022, -1021, -1020, 0, 1, 52, 53, 1022, 1023]
    mants = [0, 1, 2, (1 << 52) - 1, (1 << 52) - 2, 1 << 51]
    for e in exps:
        for mi in mants + [r.next() & ((1 << 52) - 1) for _ in range(2)]:
            for sa in (0, 1):
                if e < -1022:
                    k = e + 1074
                    bits = (1 << k) | (mi & ((1 << k) - 1))
                else:
                    bits = ((e + 1023) << 52) | mi
                a = fp.fbits((sa << 63) | bits)
                u = fp.ulp(a)
                for frac in (Fr(1, 2), Fr(1, 4)):
                    t = fp.rn(u * frac)
                    for b in (t, math.nextafter(t, 0.0), math.nextafter(t, math.inf)):
                        for sb in (1, -1):
                            add(a, b * sb)
                for b in (0.0, -0.0, math.inf, -math.inf, math.nan, 5e-324, -5e-324, a, -a):
                    add(a, b)
    for _ in range(n):
        a, b = fp.any_f64(r), fp.any_f64(r)
        add(a, b)
        h, l = fp.any_tf(r)
        add(h, l)
    for a in (math.inf, -math.inf, math.nan):
        for b in (0.0, 1.0, math.inf, math.nan, -math.inf):
            add(a, b)
    return c

def chk_C07(c, ans):
    out = []
    for i, (ln, m, a) in enumerate(zip(c.lines, c.meta, ans)):
        if a in ('PANIC', 'bad-op'):
            out.append(fail(i, 'no-panic', a)); continue
        x, y = m['a'], m['b']
        spec = fp.isfin(x) and (x + y == x)
        k = m['kind']
        if k == 'no':
            if a != ('true' if spec else 'false'):
                out.append(fail(i, 'no_overlap_iff', 'got %s, a+b==a is %s' % (a, spec)))
        elif k == 'iv':
            if a != ('true' if (spec and fp.isfin(y)) else 'false'):
                out.append(fail(i, 'is_valid_iff', 'got %s' % a))
        else:
            if spec:
                if a != 'Ok(%s %s)' % (hx(x), hx(y)):
                    out.append(fail(i, 'try_from_preserves_bits', 'got %s' % a))
            elif a != 'Err':
                out.append(fail(i, 'try_from_rejects', 'got %s' % a))
    return out

# ================================================================================================ C08

def gen_C08(r, n):
    c = Cases()
    def add(t):
        for f in ('floor', 'ceil', 'trunc', 'round', 'fract'):
            c.add('TwoFloat.%s %s' % (f, w2(t)), f=f, t=t)
    for _ in range(n):
        k = r.below(10)
        if k < 4:
            # integer or half-integer high word with an adversarial low word
            e = r.rng(0, 200)
            hi = fp.mant_exp(r, e)
            if r.below(2):
                hi = float(r.rng(-2**53, 2**53)) / r.choice([1, 2])
            u = fp.ulp(hi)
            cand = [0.5, -0.5, 1.0, -1.0, 1.5, -1.5, 0.25, -0.25, 1e-200, -1e-200, 0.75, 2.5, -2.5, float(r.rng(-1000, 1000)) / 4]
            lo = r.choice(cand)
            if r.below(3) == 0:
                lo = fp.mant_exp(r, r.rng(-60, max(-59, e - 54)))
            s, t = fp.two_sum(hi, lo)
            if fp.is_valid(s, t):
                add((s, t))
        elif k < 6:
            add(tf_in(r, -60, 200))
        elif k < 8:
            # large values whose fractional part lives in the low word
            e = r.rng(53, 105)
            hi = fp.mant_exp(r, e)
            lo = (r.rng(-2**20, 2**20) + r.choice([0, 0.5, 0.25, 0.75])) * r.choice([1, 1, 2.0 ** r.rng(0, 30)])
            s, t = fp.two_sum(hi, lo)
            if fp.is_valid(s, t):
                add((s, t))
        else:
            add(tf_in(r, -1000, 1000))
    for t in ((0.0, 0.0), (-0.0, 0.0), (-0.0, -0.0), (0.5, 0.0), (-0.5, 0.0), (1.0, -1e-300), (-1.0, 1e-300), (2.5, 0.0), (2.5, -1e-30), (-2.5, 1e-30)):
        add(t)
    return c

def chk_C08(c, ans):
    out = []
    for i, (ln, m, a) in enumerate(zip(c.lines, c.meta, ans)):
        if a in ('PANIC', 'bad-op'):
            out.append(fail(i, 'no-panic', a)); continue
        v = V(*m['t'])
        h, l = words(a)
        if not fp.is_valid(h, l):
            out.append(fail(i, m['f'] + '_valid', 'result (%s,%s) is not valid' % (hx(h), hx(l)))); continue
        R = V(h, l)
        f = m['f']
        tr = Fr(int(v))
        if f == 'floor':
            want = Fr(math.floor(v))
        elif f == 'ceil':
            want = Fr(math.ceil(v))
        elif f == 'trunc':
            want = tr
        elif f == 'round':
            want = Fr(math.floor(abs(v) + Fr(1, 2))) * (1 if v >= 0 else -1)
        else:
            want = v - tr
        if R != want:
            out.append(fail(i, f + '_exact', 'v=%s got %s want %s' % (float(v), float(R), float(want))))
    return out

# ================================================================================================ C09

SMALL = ['i8', 'i16', 'i32', 'u8', 'u16', 'u32']
BIG = ['i64', 'u64', 'i128', 'u128']

def gen_C09(r, n, thorough=False):
    c = Cases()
    for ty in SMALL + BIG:
        lo, hi = fp.INT_RANGES[ty]
        if ty in ('i8', 'u8') or (thorough and ty in ('i16', 'u16')):
            vals = list(range(lo, hi + 1))
        else:
            vals = [fp.any_int(r, ty) for _ in range(n)] + [lo, hi, 0, 1, hi - 1, lo + 1]
            if ty in BIG:
                # remainders that round onto a half-ulp tie of the high word: M odd (53 bits), n = M·2^s + 2^(s-1) ± d
                for _ in range(n):
                    bl = hi.bit_length()
                    s_ = r.rng(1, bl - 53)
                    M = (r.next() & ((1 << 53) - 1)) | (1 << 52) | r.below(2)
                    d = r.choice([0, 1, -1, r.rng(-2**20, 2**20)]) if s_ > 22 else 0
                    v = (M << s_) + (1 << (s_ - 1)) + d
                    v = v if (lo == 0 or r.below(2)) else -v
                    vals.append(min(hi, max(lo, v)))
        for v in vals:
            c.add('convert.impl_From_%s_for_TwoFloat.from %d' % (ty, v), kind='from', ty=ty, v=v)
        # try_from near the boundaries and random
        for _ in range(n):
            k = r.below(6)
            if k < 3:
                base = r.choice([lo, hi, 0, -1, hi + 1, lo - 1])
                hh = fp.rn(Fr(base)); ll = fp.rn(Fr(base) - Fr(hh))
                u = fp.ulp(ll) if ll != 0 else Fr(1, 2 ** r.rng(1, 60))
                d = r.choice([0, 1, -1, 2, -2]) * u * r.choice([1, Fr(1, 2), 2 ** r.below(8)])
                ex = Fr(base) + d
                hh = fp.rn(ex); ll = fp.rn(ex - Fr(hh))
                t = (hh, ll) if fp.is_valid(hh, ll) else (hh, 0.0)
            elif k == 3:
                t = fp.any_tf(r)
            else:
                e = r.rng(-5, hi.bit_length() + 2)
                t = tf_in(r, e, e + 1)
            for ref in ('TwoFloat', 'rTwoFloat'):
                c.add('convert.impl_TryFrom_%s_for_%s.try_from %s' % (ref, ty, w2(t)), kind='try', ty=ty, t=t)
    for _ in range(n):
        t = fp.any_tf(r)
        c.add('convert.impl_From_TwoFloat_for_f64.from %s' % w2(t), kind='tof64', t=t)
        c.add('convert.impl_From_TwoFloat_for_f32.from %s' % w2(t), kind='tof32', t=t)
        x = fp.any_f64(r)
        c.add('convert.impl_From_f64_for_TwoFloat.from %s' % hx(x), kind='fromf64', x=x)
    return c

def chk_C09(c, ans):
    import struct
    out = []
    for i, (ln, m, a) in enumerate(zip(c.lines, c.meta, ans)):
        if a in ('PANIC', 'bad-op'):
            out.append(fail(i, 'no-panic', a)); continue
        k = m['kind']
        if k == 'from':
            h, l = words(a)
            v = m['v']
            if not fp.is_valid(h, l):
                out.append(fail(i, 'from_int_valid', '%s -> (%s,%s) invalid' % (v, hx(h), hx(l)))); continue
            R = V(h, l)
            if abs(v).bit_length() - (((abs(v) & -abs(v)).bit_length() - 1) if v else 0) <= 106:
                if R != v:
                    out.append(fail(i, 'from_int_exact', '%s -> %s' % (v, R)))
            elif abs(R - v) > Fr(abs(v), 2 ** 106):
                out.append(fail(i, 'from_int128_close', '%s' % v))
            m['res'] = (h, l)
        elif k == 'try':
            t = m['t']
            lo, hi = fp.INT_RANGES[m['ty']]
            if not fp.is_valid(*t):
                if not finite(*t) and a != 'Err' and (t[0] != t[0] or math.isinf(t[0])):
                    out.append(fail(i, 'try_from_nonfinite', 'got %s' % a))
                continue
            tv = int(V(*t))
            want = 'Ok(%d)' % tv if lo <= tv <= hi else 'Err'
            if a != want:
                out.append(fail(i, 'try_from_ok_iff', 'x=(%s,%s) got %s want %s' % (hx(t[0]), hx(t[1]), a, want)))
        elif k == 'tof64':
            if a != hx(m['t'][0]):
                out.append(fail(i, 'to_f64_hi', a))
        elif k == 'tof32':
            x = m['t'][0]
            try:
                want = fp.f32hx(x) if x == x else '7fc00000'
            except OverflowError:
                want = '7f800000' if x > 0 else 'ff800000'
            if a != want:
                out.append(fail(i, 'to_f32', 'got %s want %s' % (a, want)))
        elif k == 'fromf64':
            if a != '%s %s' % (hx(m['x']), hx(0.0)):
                out.append(fail(i, 'from_f64_exact', a))
    return out

def roundtrip_C09(c, ans):
    """second round: T::try_from(TwoFloat::from(n)) == Ok(n) when n is exactly representable"""
    c2 = Cases()
    for ln, m, a in zip(c.lines, c.meta, ans):
        if m['kind'] == 'from' and 'res' in m:
            h, l = m['res']
            if V(h, l) == m['v']:
                c2.add('convert.impl_TryFrom_TwoFloat_for_%s.try_from %s' % (m['ty'], w2((h, l))), v=m['v'])
    return c2

def chk_roundtrip_C09(c2, ans):
    out = []
    for i, (ln, m, a) in enumerate(zip(c2.lines, c2.meta, ans)):
        if a != 'Ok(%d)' % m['v']:
            out.append(fail(i, 'int_roundtrip', 'n=%d got %s' % (m['v'], a)))
    return out

# ================================================================================================ registry

ARITH = r'^arithmetic\.impl_(%s)'
PROPS = {
    'C02': dict(roots=[r'^TwoFloat\.new_(add|sub|mul|div)$', r'^TwoFloat\.from_f64$', r'^convert\.impl_From_f64_for_TwoFloat'],
                gen=gen_C02, chk=chk_C02, n_quick=1500, n_thorough=60000),
    'C03': dict(roots=[ARITH % 'Add|Sub|AddAssign|SubAssign'], extra_roots=[r'^iter\.impl_Sum'],
                gen=gen_C03, chk=chk_C03, n_quick=1200, n_thorough=50000),
    'C04': dict(roots=[ARITH % 'Mul|MulAssign'], gen=gen_C04, chk=chk_C04, n_quick=500, n_thorough=20000),
    'C05': dict(roots=[ARITH % 'Div|DivAssign', r'^TwoFloat\.recip$'], gen=gen_C05, chk=chk_C05, n_quick=500, n_thorough=20000),
    'C06': dict(roots=[r'^base\.impl_Partial(Eq|Ord)', r'^TwoFloat\.(min|max|abs|is_sign_negative|is_sign_positive|signum|copysign|is_valid)$'],
                gen=gen_C06, chk=chk_C06, n_quick=600, n_thorough=30000),
    'C07': dict(roots=[r'^base\.no_overlap$', r'^TwoFloat\.is_valid$', r'^convert\.impl_TryFrom_(tup_f64_f64|arr2_f64)_for_TwoFloat',
                       r'^convert\.impl_From_r?TwoFloat_for_(tup_f64_f64|arr2_f64)'],
                gen=gen_C07, chk=chk_C07, n_quick=600, n_thorough=20000, gen_tier=True),
    'C08': dict(roots=[r'^TwoFloat\.(floor|ceil|trunc|round|fract)$', r'^num_integration\.impl_Float(Core)?_for_TwoFloat\.(floor|ceil|trunc|round|fract)$'],
                gen=gen_C08, chk=chk_C08, n_quick=2500, n_thorough=100000),
    'C09': dict(roots=[r'^convert\.impl_(From|TryFrom)_', r'^num_integration\.impl_(FromPrimitive|ToPrimitive)_for_TwoFloat'],
                gen=gen_C09, chk=chk_C09, n_quick=150, n_thorough=4000, gen_tier=True,
                followups=[(roundtrip_C09, chk_roundtrip_C09)]),
    'C19': dict(roots=[ARITH % 'Rem|RemAssign', r'^TwoFloat\.(div_euclid|rem_euclid)$'], gen=gen_C19, chk=chk_C19, n_quick=700, n_thorough=30000),
}
