"""shared, cached steps of every check: expand -> translate -> compare with the Model snapshot -> bridge -> build"""
import os, sys, json, hashlib, subprocess, fcntl, shutil, time, re, glob

VERIF = '/verif'
REPO = '/repo'
BUILD = os.path.join(VERIF, 'build')
TFV = os.path.join(VERIF, 'TFV')
MODEL_DEFS = os.path.join(TFV, 'model', 'defs.json')
MODEL_ENTRIES = os.path.join(TFV, 'model', 'entrypoints.json')
XLATE = os.path.join(VERIF, 'xlate', 'target', 'release', 'xlate')
ENV = dict(os.environ, CARGO_NET_OFFLINE='true')

def log(*a):
    print('[tfv]', *a, file=sys.stderr, flush=True)

def sh(cmd, cwd=None, env=None, timeout=None, check=False):
    p = subprocess.run(cmd, cwd=cwd, env=env or ENV, stdout=subprocess.PIPE, stderr=subprocess.STDOUT, timeout=timeout)
    out = p.stdout.decode(errors='replace')
    if check and p.returncode != 0:
        raise RuntimeError('command failed: %s\n%s' % (' '.join(cmd), out[-4000:]))
    return p.returncode, out

def tree_hash():
    h = hashlib.sha256()
    files = sorted(glob.glob(os.path.join(REPO, 'src', '**', '*.rs'), recursive=True))
    files += [os.path.join(REPO, 'Cargo.toml'), os.path.join(REPO, 'Cargo.lock')]
    for f in files:
        h.update(os.path.relpath(f, REPO).encode() + b'\0')
        with open(f, 'rb') as fh:
            h.update(fh.read())
        h.update(b'\0')
    # the machinery itself is part of the key: a new translator / prelude invalidates cached results
    for f in sorted(glob.glob(os.path.join(VERIF, 'xlate', 'src', '*.rs'))) + sorted(glob.glob(os.path.join(VERIF, 'harness', 'src', '*.rs'))) \
            + sorted(glob.glob(os.path.join(TFV, 'TFV', 'Prelude', '*.lean'))) + [MODEL_DEFS, os.path.join(TFV, 'TFV', 'Extra.lean'), os.path.join(TFV, 'Main.lean'), os.path.join(TFV, 'TFV', 'Hand', 'Serde.lean'), os.path.join(TFV, 'TFV', 'Hand', 'NumCast.lean'),
               os.path.join(TFV, 'TFV', 'Spec', 'Comm.lean'), os.path.join(TFV, 'TFV', 'Spec', 'Comm2.lean'), os.path.abspath(__file__)]:
        with open(f, 'rb') as fh:
            h.update(fh.read())
    return h.hexdigest()[:16]

class Lock:
    def __init__(self, path):
        self.path = path
    def __enter__(self):
        os.makedirs(os.path.dirname(self.path), exist_ok=True)
        self.f = open(self.path, 'w')
        fcntl.flock(self.f, fcntl.LOCK_EX)
        return self
    def __exit__(self, *a):
        fcntl.flock(self.f, fcntl.LOCK_UN)
        self.f.close()

def expand(feature_args, out_path, tag):
    tdir = os.path.join(BUILD, 'cargo-expand-' + tag)
    env = dict(ENV, CARGO_TARGET_DIR=tdir)
    cmd = ['cargo', '+nightly', 'rustc', '--offline', '--lib'] + feature_args + ['--', '-Zunpretty=expanded']
    p = subprocess.run(cmd, cwd=REPO, env=env, stdout=subprocess.PIPE, stderr=subprocess.PIPE)
    if p.returncode != 0:
        return False, p.stderr.decode(errors='replace')[-3000:]
    with open(out_path, 'wb') as f:
        f.write(p.stdout)
    return True, ''

def load_defs(path):
    d = json.load(open(path))
    return {x['name']: x for x in d['defs']}, d

def compare_defs(model, gen):
    changed = [n for n in gen if n in model and (gen[n]['text'] != model[n]['text'] or gen[n].get('pf') != model[n].get('pf'))]
    added = [n for n in gen if n not in model]
    removed = [n for n in model if n not in gen]
    return changed, added, removed

def closure(defs, roots):
    """transitive callees of the root definitions"""
    seen, todo = set(), [r for r in roots if r in defs]
    while todo:
        n = todo.pop()
        if n in seen:
            continue
        seen.add(n)
        for d in defs[n]['deps']:
            if d in defs and d not in seen:
                todo.append(d)
    return seen

def build_harness(hdir, dispatch_rs, tag, features):
    tdir = os.path.join(BUILD, 'cargo-harness-' + tag)
    env = dict(ENV, CARGO_TARGET_DIR=tdir, XLATE_DISPATCH_RS=dispatch_rs)
    shutil.copy(os.path.join(REPO, 'Cargo.lock'), os.path.join(VERIF, 'harness', 'Cargo.lock'))
    cmd = ['cargo', 'build', '--offline'] + features
    rc, out = sh(cmd, cwd=os.path.join(VERIF, 'harness'), env=env)
    if rc != 0:
        return None, out[-3000:]
    dst = os.path.join(hdir, 'harness_' + tag)
    shutil.copy(os.path.join(tdir, 'debug', 'harness'), dst)
    return dst, ''

def rename_for_delta(text, names):
    """rename the changed definitions (and their .pf) to NAME.NEW inside a definition text"""
    for n in sorted(names, key=len, reverse=True):
        text = re.sub(r'(?<![\w.«»])' + re.escape(n) + r'(?![\w«»])(?!\.(?!pf\b|go\b|loop\d)[A-Za-z_])', n + '.NEW', text)
    return text

# identities of the binary64 model that hold bit for bit (Spec/Comm.lean, Spec/Comm2.lean); the alternatives are tried in
# order of cost: definitional unfolding, rewriting with the identities, case splitting on every `if`/`match` (grind, split)
EXT = 'F64.add_comm, F64.mul_comm, F64.fma_comm, rgt_f64_swap, rge_f64_swap, rmul_f64_two, rtwo_mul_f64, rdiv_f64_two'
BRIDGE_TAC = ('theorem bridge_UNAME : @NAME.NEW = @NAME := by\n  first | rfl | (funext; rfl)'
              ' | (funext; simp only [NAME.NEW, NAME, arithmetic.fma, RAdd.add, RMul.mul, F64.add_comm, F64.mul_comm, F64.fma_comm]; done)'
              ' | (funext; unfold NAME.NEW NAME; simp [' + EXT + ']; done)'
              # loops and self-recursion are fuel-recursive definitions: induction on the fuel, the recursive call rewritten by the hypothesis
              ' | (funext fuel; induction fuel with | zero => rfl | succ n ih => (funext; simp only [NAME.NEW, NAME, ih]; first | done | rfl))'
              ' | (funext fuel; induction fuel with | zero => rfl | succ n ih => (funext; simp only [NAME.NEW, NAME, ih, ' + EXT + ']; first | done | rfl | grind))'
              ' | (funext; unfold NAME.NEW NAME; grind)'
              ' | (funext; unfold NAME.NEW NAME; simp only [' + EXT + ']; grind)'
              ' | (funext; unfold NAME.NEW NAME; repeat\' split <;> simp_all [' + EXT + '])')

def bridge(hdir, model, gen, gen_order, changed, added):
    """kernel-checked equality of each changed definition with its Model counterpart (DESIGN §2.6)"""
    res = {}
    if not changed and not added:
        return res
    lines = ['import TFV.Gen', 'import TFV.Spec.Comm2', 'set_option linter.unusedSimpArgs false', 'set_option linter.unusedVariables false', 'set_option maxRecDepth 100000', 'set_option maxHeartbeats 400000', '']
    names = set(changed)
    order = [n for n in gen_order if n in names or n in added]
    for n in order:
        d = gen[n]
        if n in added:
            lines.append(d['text'])
            if d.get('pf'):
                lines.append(d['pf'])
            continue
        t = rename_for_delta(d['text'], names)
        # instances of the snapshot stay in force: drop re-declared instance lines
        t = '\n'.join(l for l in t.split('\n') if not l.startswith('instance '))
        lines.append(t)
        if d.get('pf'):
            lines.append(rename_for_delta(d['pf'], names))
        if gen[n]['text'] != model[n]['text']:
            lines.append(BRIDGE_TAC.replace('UNAME', n.replace('.', '_')).replace('NAME', n))
            lines.append('#print axioms bridge_%s' % n.replace('.', '_'))
        if d.get('pf') and model[n].get('pf') and d['pf'] != model[n]['pf']:
            lines.append(BRIDGE_TAC.replace('bridge_UNAME', 'bridgepf_UNAME').replace('UNAME', n.replace('.', '_')).replace('NAME.NEW', 'NAME.NEW.pf').replace('@NAME :=', '@NAME.pf :=').replace('NAME.NEW.pf NAME;', 'NAME.NEW.pf NAME.pf;').replace('NAME.NEW.pf, NAME,', 'NAME.NEW.pf, NAME.pf,').replace('NAME', n))
            lines.append('#print axioms bridgepf_%s' % n.replace('.', '_'))
        elif bool(d.get('pf')) != bool(model[n].get('pf')):
            res[n] = 'BROKEN (panic-freedom predicate appeared or disappeared)'
        lines.append('')
    path = os.path.join(TFV, 'Delta_%s.lean' % os.path.basename(hdir))
    with open(path, 'w') as f:
        f.write('\n'.join(lines))
    rc, out = sh(['lake', 'env', 'lean', path], cwd=TFV, timeout=1200)
    shutil.move(path, os.path.join(hdir, 'Delta.lean'))
    with open(os.path.join(hdir, 'Delta.log'), 'w') as f:
        f.write(out)
    # find which theorems failed: error lines carry line numbers; map back to theorem names
    src = '\n'.join(lines).split('\n')
    failed = set()
    generic_fail = False
    for m in re.finditer(r'Delta_[\w-]+\.lean:(\d+):\d+: error', out):
        ln = int(m.group(1)) - 1
        # walk back to the enclosing `theorem bridge...` or `def X.NEW`
        k = ln
        hit = None
        while k >= 0:
            mm = re.match(r'theorem bridge(?:pf)?_\S+ : @(\S+?)\.NEW(?:\.pf)? =', src[k]) or re.match(r'def (\S+?)\.NEW(?:\.pf)? ', src[k])
            if mm:
                hit = mm.group(1)
                break
            k -= 1
        if hit:
            failed.add(hit)
        else:
            generic_fail = True
    # a bridge may only rest on the three standard axioms
    for m in re.finditer(r"'bridge_(\S+)' depends on axioms: \[(.*?)\]", out, re.S):
        if any(a.strip() not in ('propext', 'Classical.choice', 'Quot.sound') for a in m.group(2).split(',') if a.strip()):
            generic_fail = True
    for n in changed:
        if n in res:
            continue
        res[n] = 'BROKEN' if (n in failed or generic_fail or (rc != 0 and not failed)) else 'bridged'
    for n in added:
        res[n] = 'added'
    return res

def build_gen_driver(hdir, gdir):
    """compile the regenerated model to a native driver (used when it differs from the snapshot)"""
    proj = os.path.join(hdir, 'genproj')
    os.makedirs(os.path.join(proj, 'TFV'), exist_ok=True)
    if not os.path.exists(os.path.join(proj, 'TFV', 'Prelude')):
        shutil.copytree(os.path.join(TFV, 'TFV', 'Prelude'), os.path.join(proj, 'TFV', 'Prelude'))
    shutil.copy(os.path.join(TFV, 'TFV', 'Prelude.lean'), os.path.join(proj, 'TFV', 'Prelude.lean'))
    shutil.copy(os.path.join(gdir, 'Gen.lean'), os.path.join(proj, 'TFV', 'Gen.lean'))
    shutil.copy(os.path.join(gdir, 'Dispatch.lean'), os.path.join(proj, 'TFV', 'Dispatch.lean'))
    shutil.copy(os.path.join(TFV, 'TFV', 'Extra.lean'), os.path.join(proj, 'TFV', 'Extra.lean'))
    shutil.copytree(os.path.join(TFV, 'TFV', 'Hand'), os.path.join(proj, 'TFV', 'Hand'), dirs_exist_ok=True)
    shutil.copy(os.path.join(TFV, 'Main.lean'), os.path.join(proj, 'Main.lean'))
    with open(os.path.join(proj, 'lakefile.toml'), 'w') as f:
        f.write('name = "TFVGen"\nversion = "0.1.0"\ndefaultTargets = ["driver"]\n\n[[lean_lib]]\nname = "TFV"\n\n[[lean_exe]]\nname = "driver"\nroot = "Main"\n')
    rc, out = sh(['lake', 'build', 'driver'], cwd=proj, timeout=1800)
    if rc != 0:
        return None, out[-3000:]
    return os.path.join(proj, '.lake', 'build', 'bin', 'driver'), ''

def reprove_project(st):
    """a copy of the Lean project whose Gen.lean is the REGENERATED model of the current tree: building a property's
    theorem modules there re-checks the theorems against what the code says now (DESIGN §2.6, second chance after a
    bridge that rfl/simp could not close).  Compiled Prelude files are reused; everything that imports Gen is rebuilt."""
    proj = os.path.join(st['dir'], 'reprove')
    with Lock(os.path.join(st['dir'], 'reprove.lock')):
        if not os.path.exists(os.path.join(proj, 'READY')):
            shutil.rmtree(proj, ignore_errors=True)
            os.makedirs(proj)
            for f in ('lakefile.toml', 'Main.lean', 'TFV.lean', 'lake-manifest.json'):
                if os.path.exists(os.path.join(TFV, f)):
                    shutil.copy2(os.path.join(TFV, f), os.path.join(proj, f))
            shutil.copytree(os.path.join(TFV, 'TFV'), os.path.join(proj, 'TFV'))
            sh(['cp', '-a', os.path.join(TFV, '.lake'), os.path.join(proj, '.lake')])
            for f in ('Gen.lean', 'Dispatch.lean'):
                shutil.copy(os.path.join(st['dir'], 'gen_std', f), os.path.join(proj, 'TFV', f))
            open(os.path.join(proj, 'READY'), 'w').write('ok')
    return proj

def ensure_serde(st):
    """third harness build (serde feature), only needed by C20; cached beside the others"""
    if st.get('harness_serde') and os.path.exists(st['harness_serde']):
        return
    with Lock(os.path.join(BUILD, 'shared.lock')):
        hb, err = build_harness(st['dir'], os.path.join(st['dir'], 'gen_std', 'dispatch.rs'), 'serde', ['--features', 'std,serde'])
        st['harness_serde'] = hb
        if hb is None:
            st['serde_error'] = err
        json.dump(st, open(os.path.join(st['dir'], 'shared.json'), 'w'), indent=1)

def prune_old(keep):
    try:
        ds = [d for d in glob.glob(os.path.join(BUILD, 'tree-*')) if os.path.isdir(d)]
        ds.sort(key=lambda d: os.path.getmtime(d), reverse=True)
        for d in ds[keep:]:
            shutil.rmtree(d, ignore_errors=True)
    except Exception:
        pass

def shared():
    """run (or reuse) the per-tree steps; returns the state dict"""
    h = tree_hash()
    hdir = os.path.join(BUILD, 'tree-' + h)
    os.makedirs(hdir, exist_ok=True)
    with Lock(os.path.join(BUILD, 'shared.lock')):
        sj = os.path.join(hdir, 'shared.json')
        if os.path.exists(sj):
            os.utime(hdir, None)
            return json.load(open(sj))
        prune_old(3)
        t0 = time.time()
        st = {'hash': h, 'dir': hdir, 'errors': []}
        if not os.path.exists(XLATE):
            rc, out = sh(['cargo', 'build', '--release', '--offline'], cwd=os.path.join(VERIF, 'xlate'))
            if rc != 0:
                raise RuntimeError('xlate build failed\n' + out[-3000:])
        # 1. expand + translate, both feature configurations
        for tag, fa in (('std', []), ('nostd', ['--no-default-features', '--features', 'math_funcs'])):
            ok, err = expand(fa, os.path.join(hdir, 'expanded_%s.rs' % tag), tag)
            if not ok:
                st['errors'].append('expand %s failed: %s' % (tag, err))
                continue
            gdir = os.path.join(hdir, 'gen_' + tag)
            rc, out = sh([XLATE, os.path.join(hdir, 'expanded_%s.rs' % tag), gdir])
            if rc != 0:
                st['errors'].append('xlate %s failed: %s' % (tag, out[-2000:]))
        if st['errors']:
            json.dump(st, open(sj, 'w'), indent=1)
            return st
        model, _ = load_defs(MODEL_DEFS)
        gen, graw = load_defs(os.path.join(hdir, 'gen_std', 'defs.json'))
        gen_n, graw_n = load_defs(os.path.join(hdir, 'gen_nostd', 'defs.json'))
        st['untranslated'] = graw['failed']
        changed, added, removed = compare_defs(model, gen)
        st['changed'], st['added'], st['removed'] = changed, added, removed
        # 2. std vs no_std, definition by definition
        st['cfg_diff'] = sorted([n for n in gen if n not in gen_n or gen_n[n]['text'] != gen[n]['text']] + [n for n in gen_n if n not in gen])
        # 3. bridge
        order = [x['name'] for x in graw['defs']]
        st['bridge'] = bridge(hdir, model, gen, order, changed, added) if (changed or added) else {}
        # 4. drivers
        if changed or added or removed:
            drv, err = build_gen_driver(hdir, os.path.join(hdir, 'gen_std'))
            if drv is None:
                st['model_errors'] = ['regenerated model does not compile: ' + err[-1500:]]
            st['driver'] = drv
        else:
            st['driver'] = os.path.join(TFV, '.lake', 'build', 'bin', 'driver')
        st['model_driver'] = os.path.join(TFV, '.lake', 'build', 'bin', 'driver')
        # 5. harnesses (implementation side), std and no_std
        disp = os.path.join(hdir, 'gen_std', 'dispatch.rs')
        for tag, feats in (('std', ['--features', 'std']), ('nostd', [])):
            hb, err = build_harness(hdir, disp, tag, feats)
            if hb is None:
                st['errors'].append('harness %s build failed: %s' % (tag, err))
            st['harness_' + tag] = hb
        st['entrypoints'] = os.path.join(hdir, 'gen_std', 'entrypoints.json')
        st['defs'] = os.path.join(hdir, 'gen_std', 'defs.json')
        st['wall_s'] = round(time.time() - t0, 1)
        json.dump(st, open(sj, 'w'), indent=1)
        return st
