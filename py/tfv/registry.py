"""registry of theorem modules / clauses per property, and the trusted base reported in every evidence file"""

EXPECTED_UNTRANSLATED = {
    # generic / unsupported signatures: outside every property (reported in DESIGN §2.4)
    'num_integration.impl_Num_for_TwoFloat.from_str_radix',
    'num_integration.impl_NumCast_for_TwoFloat.from',
}

TRUSTED_BASE = [
    'Lean 4.33.0 kernel; axioms per theorem listed under coverage.theorems (subset of propext, Classical.choice, Quot.sound); no native_decide/bv_decide/sorry',
    'Mathlib v4.33.0 modules imported by Spec/Lemmas/Properties',
    'rustc nightly -Zunpretty=expanded (macro expansion) and syn 2.0.119 (parser)',
    'xlate (our Rust->Lean translator) and the Prelude reading of Rust semantics (impl selection, as-casts, debug overflow checks, size_of::<usize>() = 8): validated by the per-run bit-exact correspondence, not proved',
    'modelled, not verified: IEEE-754 conformance of x86-64 SSE2 + - * / sqrt; correct rounding of f64::mul_add and libm 0.2.16 fma/sqrt/cbrt; exactness of libm floor/ceil/trunc/round/modf/fabs/copysign and exp2 on integers; hand port of libm log/log1p/log2',
    'search oracles (Python fractions, mpmath 1.3.0 at 600 bits) are used only to look for failing inputs',
]

ASSUMPTIONS = [
    'all NaNs are one value (payload and sign of NaN are outside every property)',
    'value semantics of a translated function are meaningful only where its generated .pf (panic-free) predicate holds; the harness is built with debug assertions and overflow checks on',
    'target is 64-bit (usize = u64)',
]

REG = {
    'C08': {'module': 'TFV.Properties.C08',
            'theorems': ['C08.floor_exact', 'C08.ceil_exact', 'C08.trunc_exact', 'C08.round_exact', 'C08.fract_exact', 'C08.trunc_add_fract'],
            'clauses': {'floor/ceil/trunc/round/fract of a valid x: exact value and valid result, all magnitudes up to f64::MAX': 'full',
                        'trunc(x) + fract(x) = x exactly': 'full'}},
    'C20': {'module': 'TFV.Properties.C20',
            'theorems': ['C20.de_seq_ok_valid', 'C20.de_map_ok_valid', 'C20.de_ser_roundtrip_seq', 'C20.de_ser_roundtrip_map', 'C20.de_ser_roundtrip_map_rev',
                         'C20.de_seq_rejects_invalid', 'C20.de_map_rejects_invalid', 'C20.de_seq_wrong_length', 'C20.de_map_duplicate_hi', 'C20.de_map_unknown_first', 'C20.ser_shape'],
            'clauses': {'deserializer can only produce valid values; round trip seq/map either order; missing/duplicate/unknown rejected (hand model of serialization.rs)': 'full (about the hand model; tie = correspondence + source hash)',
                        'format shape "<hi> <sign> <|lo|>"': 'hand model definitional; parse-back and precision clauses search-only (core::fmt is not modelled)'}},
    'C06': {'module': 'TFV.Properties.C06',
            'theorems': ['C06.eq_symm', 'C06.eq_iff_partial_cmp_equal', 'C06.nan_word_unordered', 'C06.partial_cmp_exact', 'C06.eq_exact',
                         'C06.partial_cmp_f64_exact', 'C06.min_exact', 'C06.max_exact', 'C06.abs_exact', 'C06.signum_exact', 'C06.copysign_exact'],
            'clauses': {'== symmetric; == iff partial_cmp = Some(Equal); NaN word unordered (all operands)': 'full',
                        'TwoFloat/TwoFloat and TwoFloat/f64 comparisons equal comparison of exact values (valid operands)': 'full',
                        'min/max/abs/signum/copysign/is_sign_* exact': 'full'}},
    'C07': {'module': 'TFV.Properties.C07',
            'theorems': ['C07.no_overlap_iff', 'C07.is_valid_iff', 'C07.no_overlap_pf', 'C07.try_from_tuple_ok_iff', 'C07.try_from_arr_ok_iff',
                         'C07.tuple_round_trip', 'C07.arr_round_trip'],
            'clauses': {'no_overlap(a,b) <-> a finite and RN(a+b) == a, all bit patterns': 'full', 'is_valid <-> Valid': 'full',
                        'TryFrom succeeds exactly on such pairs, preserves words, round trip': 'full'}},
}
