"""registry of theorem modules / clauses per property, and the trusted base reported in every evidence file"""

EXPECTED_UNTRANSLATED = {
    # generic / unsupported signatures: outside every property (reported in DESIGN §2.4)
    'num_integration.impl_Num_for_TwoFloat.from_str_radix',
    'num_integration.impl_NumCast_for_TwoFloat.from',
}

TRUSTED_BASE = [
    'Lean 4.33.0 kernel; axioms per theorem listed under coverage.theorems (subset of propext, Classical.choice, Quot.sound); no native_decide/bv_decide/sorry',
    'Mathlib v4.33.0 modules imported by Spec/Lemmas/Properties',
    'rustc nightly -Zunpretty=expanded (macro expansion) and syn 2.0.119 (parser)',
    'xlate (our Rust->Lean translator) and the Prelude reading of Rust semantics (impl selection, as-casts, debug overflow checks, size_of::<usize>() = 8): validated by the per-run bit-exact correspondence, not proved',
    'modelled, not verified: IEEE-754 conformance of x86-64 SSE2 + - * / sqrt; correct rounding of f64::mul_add and libm 0.2.16 fma/sqrt/cbrt; exactness of libm floor/ceil/trunc/round/modf/fabs/copysign and exp2 on integers; hand port of libm log/log1p/log2',
    'search oracles (Python fractions, mpmath 1.3.0 at 600 bits) are used only to look for failing inputs',
]

ASSUMPTIONS = [
    'all NaNs are one value (payload and sign of NaN are outside every property)',
    'value semantics of a translated function are meaningful only where its generated .pf (panic-free) predicate holds; the harness is built with debug assertions and overflow checks on',
    'target is 64-bit (usize = u64)',
]

REG = {}
