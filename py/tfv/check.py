"""bin/check <Cxx> --tier quick|thorough [--replay file]   (DESIGN §3, §7)"""
import sys, os, json, time, re, hashlib, subprocess
from . import pipeline, corr, fp, props, registry
from .pipeline import VERIF, TFV, log

def hand_hash(entry):
    """hash of a hand-modelled source: 'path' = the whole file; 'path#header' = the item whose first line starts with `header`, up to
    the first line that is a lone closing brace, with blank lines, `//` comment lines and indentation ignored (so that only a change
    to the code of that item is a broken obligation)"""
    if '#' not in entry:
        return hashlib.sha256(open(os.path.join(pipeline.REPO, entry), 'rb').read()).hexdigest()
    path, header = entry.split('#', 1)
    out, on = [], False
    for ln in open(os.path.join(pipeline.REPO, path), encoding='utf-8'):
        if not on and ln.startswith(header):
            on = True
        if on:
            t = ln.strip()
            if t and not t.startswith('//'):
                out.append(t)
            if ln.rstrip() == '}':
                break
    return hashlib.sha256('\n'.join(out).encode()).hexdigest() if out else 'item-not-found'

AXIOMS_OK = {'propext', 'Classical.choice', 'Quot.sound'}

def known_findings():
    out = []
    p = os.path.join(VERIF, 'known_findings.txt')
    if os.path.exists(p):
        for ln in open(p):
            ln = ln.strip()
            m = re.match(r'finding:\s+property=(\S+)\s+key=(\S+)\s+(.*)', ln)
            if m:
                out.append({'property': m.group(1), 'key': m.group(2), 'text': m.group(3)})
    return out

def proof_status(pid, tier='quick', root=None):
    """build the property's theorem modules, audit axioms of every theorem in them, grep for forbidden constructs"""
    TFV = root or pipeline.TFV      # root = a re-proof project (regenerated Gen.lean) or the committed project
    reg = registry.REG.get(pid, {})
    mods = reg.get('module')
    if isinstance(mods, str):
        mods = [mods]
    mods = list(mods or []) + [m for m in reg.get('extra_modules', []) if os.path.exists(os.path.join(TFV, m.replace('.', '/') + '.lean'))]
    res = {'module': ' '.join(mods), 'theorems': [], 'ok': True, 'errors': []}
    if not mods:
        return res
    for mod in mods:
        path = os.path.join(TFV, mod.replace('.', '/') + '.lean')
        if not os.path.exists(path):
            res['ok'] = False
            res['errors'].append('theorem module %s is missing' % mod)
            return res
    with pipeline.Lock(os.path.join(pipeline.BUILD, 'lake.lock') if root is None else os.path.join(root, 'lake.lock')):
        rc, out = pipeline.sh(['lake', 'build'] + mods, cwd=TFV, timeout=3600 if root is None else 7200)
        if rc != 0:
            res['ok'] = False
            res['errors'].append('lake build %s failed: %s' % (' '.join(mods), out[-1500:]))
            return res
        outs = ''
        for k, mod in enumerate(mods):
            audit = os.path.join(pipeline.BUILD if root is None else root, 'Audit_%s_%d.lean' % (pid, k))
            with open(audit, 'w') as f:
                f.write(AUDIT_TEMPLATE.replace('MODULE', mod))
            rc, out = pipeline.sh(['lake', 'env', 'lean', audit], cwd=TFV, timeout=1200)
            if rc != 0:
                res['ok'] = False
                res['errors'].append('axiom audit of %s failed to run: %s' % (mod, out[-1500:]))
                return res
            outs += out
            if tier == 'thorough':
                # independent re-check of the compiled module by leanchecker
                rc2, out2 = pipeline.sh(['lake', 'env', 'leanchecker', mod], cwd=TFV, timeout=3600)
                res['leanchecker'] = 'ok' if rc2 == 0 and res.get('leanchecker', 'ok') == 'ok' else out2[-800:]
                if rc2 != 0:
                    res['ok'] = False
                    res['errors'].append('leanchecker rejected %s: %s' % (mod, out2[-800:]))
    out = outs
    for m in re.finditer(r'AXIOMS (\S+) \[(.*?)\]', out):
        name, axs = m.group(1), [a.strip() for a in m.group(2).split(',') if a.strip()]
        bad = [a for a in axs if a not in AXIOMS_OK]
        res['theorems'].append({'name': name, 'axioms': axs})
        if bad:
            res['ok'] = False
            res['errors'].append('theorem %s depends on axioms %s' % (name, bad))
    # source-level scan of everything under Spec/ Lemmas/ Properties/ Hand/
    forb = re.compile(r'\bsorry\b|\badmit\b|^axiom\s|native_decide|bv_decide|implemented_by|\bunsafe\s|maxHeartbeats 0\b', re.M)
    for d in ('Spec', 'Lemmas', 'Properties', 'Hand'):
        dd = os.path.join(TFV, 'TFV', d)
        if not os.path.isdir(dd):
            continue
        for fn in sorted(os.listdir(dd)):
            if fn.endswith('.lean'):
                src = open(os.path.join(dd, fn)).read()
                src_nc = re.sub(r'/-.*?-/', '', src, flags=re.S)
                src_nc = re.sub(r'--.*', '', src_nc)
                if forb.search(src_nc):
                    res['errors'].append('forbidden construct in %s/%s' % (d, fn))
                    res['ok'] = False
    need = reg.get('theorems', [])
    have = {t['name'] for t in res['theorems']}
    for t in need:
        if t not in have:
            res['ok'] = False
            res['errors'].append('registered theorem %s not found in %s' % (t, ' '.join(mods)))
    return res

AUDIT_TEMPLATE = '''import Lean
import MODULE
open Lean Elab Command in
run_cmd do
  let env ← getEnv
  let some idx := env.getModuleIdx? `MODULE | throwError "module not found"
  let mut names : Array Name := #[]
  for (n, ci) in env.constants.map₁.toList do
    if env.getModuleIdxFor? n == some idx then
      match ci with
      | .thmInfo _ => if !n.isInternal then names := names.push n
      | _ => pure ()
  for n in names.qsort (fun a b => a.toString < b.toString) do
    let ax ← liftCoreM (Lean.collectAxioms n)
    logInfo m!"AXIOMS {n} {ax.toList}"
'''

def write_evidence(pid, ev):
    os.makedirs(os.path.join(VERIF, 'evidence'), exist_ok=True)
    with open(os.path.join(VERIF, 'evidence', pid + '.json'), 'w') as f:
        json.dump(ev, f, indent=1)

def write_replay(pid, st, payload):
    os.makedirs(os.path.join(VERIF, 'replays'), exist_ok=True)
    key = hashlib.sha256(json.dumps(payload, sort_keys=True).encode()).hexdigest()[:10]
    path = os.path.join(VERIF, 'replays', '%s-%s.json' % (pid, key))
    payload = dict(payload, property=pid, tree=st.get('hash'))
    with open(path, 'w') as f:
        json.dump(payload, f, indent=1)
    return path

def run_cases(st, lines, which='harness_std'):
    exe = st[which]
    out, rc, err = corr.run_parallel([exe], lines, 16)
    # SKIPPED = not run because the process had already died or hung several times (corr.run_lines); such answers carry no information
    return ['bad-op' if a == 'SKIPPED' else a for a in out], ('SKIPPED' in out)

def run_cases1(st, lines, which='harness_std'):
    return run_cases(st, lines, which)[0]

def main(argv):
    """entry point: an unexpected exception of the machinery is reported as an obligation that could not be checked
    (exit 1 with a VIOLATION line naming it), never as a silent non-zero exit"""
    try:
        return main_(argv)
    except Exception:
        import traceback
        tb = traceback.format_exc()
        pid = argv[1] if len(argv) > 1 else '?'
        sys.stderr.write(tb)
        rp = write_replay(pid, {'hash': None}, {'kind': 'machinery', 'obligation': 'the check itself failed on this tree', 'traceback': tb[-4000:]})
        print('broken obligations: the check machinery raised an exception on this tree (see replay file)')
        print('VIOLATION property=%s replay=%s no-failing-input-found' % (pid, rp))
        return 1

def main_(argv):
    t0 = time.time()
    pid = argv[1]
    tier = os.environ.get('VERIF_TIER', 'quick')
    replay = None
    i = 2
    while i < len(argv):
        if argv[i] == '--tier':
            tier = argv[i + 1]; i += 2
        elif argv[i] == '--replay':
            replay = argv[i + 1]; i += 2
        else:
            i += 1
    seed = int(os.environ.get('VERIF_SEED', '1'))
    spec = props.PROPS[pid]
    st = pipeline.shared()
    if st.get('errors'):
        # the tree does not build / translate: nothing can be shown about it
        rp = write_replay(pid, st, {'kind': 'build', 'obligation': 'expand/translate/build of the current tree', 'errors': st['errors']})
        print('\n'.join(st['errors'])[-3000:])
        print('VIOLATION property=%s replay=%s no-failing-input-found' % (pid, rp))
        write_evidence(pid, {'property_id': pid, 'tier': tier, 'seed': seed, 'level': 'proof', 'wall_s': round(time.time() - t0, 1), 'violations': 1,
                             'coverage': {'obligations': 1, 'discharged': 0, 'checker_cmd': 'bin/check', 'trusted_base': [], 'explanation': 'tree failed to build'}})
        return 1
    if replay:
        return do_replay(pid, spec, st, replay)

    gen_defs, graw = pipeline.load_defs(st['defs'])
    model_defs, _ = pipeline.load_defs(pipeline.MODEL_DEFS)
    ents = json.load(open(st['entrypoints']))
    roots = [e['name'] for e in ents if any(re.search(rx, e['name']) for rx in spec['roots'])]
    roots += [n for n in gen_defs if any(re.search(rx, n) for rx in spec.get('extra_roots', []))]
    model_roots = [n for n in model_defs if any(re.search(rx, n) for rx in spec['roots'] + spec.get('extra_roots', []))]
    foot = pipeline.closure(gen_defs, roots) | pipeline.closure(model_defs, model_roots)
    broken = sorted(n for n in foot if st['bridge'].get(n, '').startswith('BROKEN') or n in st['removed'])
    bridged = sorted(n for n in foot if st['bridge'].get(n) == 'bridged')
    untranslated = [u for u in st.get('untranslated', []) if (u['name'] in foot or any(re.search(rx, u['name']) for rx in spec['roots']))
                    and u['name'] not in registry.EXPECTED_UNTRANSLATED]
    cfg_dep = sorted(n for n in foot if n in st.get('cfg_diff', []))
    hand_changed = []
    if spec.get('hand_sources'):
        snap = json.load(open(os.path.join(TFV, 'model', 'hand_sources.json')))
        for f in spec['hand_sources']:
            cur = hand_hash(f)
            if snap.get(f) != cur:
                hand_changed.append(f)

    # ---- cases: corpus first, then the property's generator, then generic cases for every root entry point
    r = fp.Rng(seed * 1000003 + int(hashlib.sha256(pid.encode()).hexdigest()[:8], 16))
    n = spec['n_thorough'] if tier == 'thorough' else spec['n_quick']
    if broken:
        n = max(n, spec['n_quick'] * 3)      # a broken obligation: search harder (DESIGN §7)
        # harvest the literals of the changed definitions (old and new text): thresholds, constants, table entries
        lits = set()
        for b in broken:
            for d in (gen_defs.get(b), model_defs.get(b)):
                if d:
                    for mm in re.finditer(r'f64lit 0x([0-9a-f]{16})', d['text']):
                        lits.add(int(mm.group(1), 16))
                    for mm in re.finditer(r'\((-?\d+) : [IU]\d+\)', d['text']):
                        v = int(mm.group(1))
                        if abs(v) < 2 ** 60:
                            lits.add(fp.bits(float(v)))
        fp.POOL[:] = [fp.fbits(b) for b in sorted(lits) if fp.fbits(b) == fp.fbits(b)][:4000]
    cases = spec['gen'](r, n) if not spec.get('gen_tier') else spec['gen'](r, n, tier == 'thorough')
    corpus = os.path.join(VERIF, 'corpus', pid + '.txt')
    n_corpus = 0
    if os.path.exists(corpus):
        for ln in open(corpus):
            ln = ln.strip()
            if ln and not ln.startswith('#') and spec.get('corpus_meta'):
                m = spec['corpus_meta'](ln)
                if m is not None:
                    cases.add(ln, **m); n_corpus += 1
    gen_lines = []
    root_ents = [e for e in ents if e['name'] in roots]
    per = max(4, (200 if tier == 'quick' else 2000) // max(1, len(root_ents)) * 4)
    for e in root_ents:
        for _ in range(per):
            gen_lines.append(corr.gen_case(e, r, valid_only=(r.below(4) > 0)))

    hkey = 'harness_std'
    if spec.get('harness') == 'serde':
        pipeline.ensure_serde(st)
        hkey = 'harness_serde'
        if not st.get('harness_serde'):
            print('serde harness failed to build: ' + str(st.get('serde_error'))[-2000:])
    impl, skipped_some = run_cases(st, cases.lines, hkey)
    no_model = not st.get('driver')
    def run_model(lines):
        if no_model:
            return list(run_cases1(st, lines, hkey))      # no model to compare with: the obligation is reported below
        return corr.run_parallel([st['driver']], lines, 16)[0]
    model = run_model(cases.lines)
    for i, m in enumerate(cases.meta):
        if m.get('impl_only'):
            model[i] = impl[i]
    impl_g = run_cases1(st, gen_lines)
    model_g = run_model(gen_lines)
    cdiff = corr.diff(cases.lines, impl, model) + corr.diff(gen_lines, impl_g, model_g)

    # ---- search: the property's oracle on the implementation's answers
    fails = spec['chk'](cases, impl)
    extra_eval = 0
    prev_c, prev_a = cases, impl
    for fu in spec.get('followups', []):
        c2 = fu[0](prev_c, prev_a)
        if c2.lines:
            if len(fu) > 3 and fu[3] == 'model':
                a2 = run_model(c2.lines) if not no_model else [m.get('want') for m in c2.meta]
            else:
                a2 = run_cases1(st, c2.lines, hkey)
            extra_eval += len(c2.lines)
            f2 = fu[1](c2, a2)
            for f in f2:
                f['line'] = c2.lines[f['idx']]; f['impl'] = a2[f['idx']]
            fails += f2
            if len(fu) > 2 and fu[2]:
                prev_c, prev_a = c2, a2
    nostd_out_of_domain = 0
    if spec.get('nostd'):
        impl_n = run_cases1(st, cases.lines, 'harness_nostd')
        impl_gn = run_cases1(st, gen_lines, 'harness_nostd')
        ent_args = {e['name']: e['args'] for e in ents}
        def unconstructible(ln):
            """an operand that no safe public constructor or operation can produce: an overlapping pair with a finite high word
            (C01: results are valid or have a non-finite high word).  Differences there stem from what the optimiser does to
            `llvm.fma` (DESIGN §12), they are counted but not reported."""
            w = ln.split()
            kinds = ent_args.get(w[0])
            if not kinds:
                return False
            k = 1
            for kd in kinds:
                if kd == 'tf':
                    h, l = fp.unhx(w[k]), fp.unhx(w[k + 1]); k += 2
                    if fp.isfin(h) and not fp.is_valid(h, l):
                        return True
                elif kd in ('pair', 'arr2'):
                    k += 2
                else:
                    k += 1
            return False
        for (i, ln, x, y) in corr.diff(cases.lines, impl, impl_n) + corr.diff(gen_lines, impl_g, impl_gn):
            if unconstructible(ln):
                nostd_out_of_domain += 1
                continue
            fails.append({'idx': -1, 'clause': 'std_vs_nostd', 'detail': 'std %s, no_std %s' % (x, y), 'line': ln, 'impl': x})
    for f in fails:
        if 'line' not in f:
            f['line'] = cases.lines[f['idx']]; f['impl'] = impl[f['idx']]

    if skipped_some and any(f['impl'] != 'bad-op' for f in fails):
        fails = [f for f in fails if f['impl'] != 'bad-op']      # cases that were never run are not evidence
    # an entry point that no longer exists answers bad-op: that is a removed definition (a broken obligation, reported below), but
    # the replay should be an input on which the property fails, so answered failures are preferred (see `simplicity`)
    # known findings are matched by (property, clause key)
    kf = [k for k in known_findings() if k['property'] == pid]
    known_hit, fresh = {}, []
    for f in fails:
        k = next((k for k in kf if k['key'] == f['clause'] or k['key'] == f.get('key')), None)
        if k:
            known_hit.setdefault(k['key'], (k, f))
        else:
            fresh.append(f)
    for key, (k, f) in known_hit.items():
        print('KNOWN-FINDING: property=%s %s (e.g. %s -> %s)' % (pid, k['text'], f['line'], f['impl']))

    # ---- proof obligations
    ps = proof_status(pid, tier)
    # second chance for bridges that rfl/simp could not close: re-check the property's theorems against the REGENERATED
    # model.  Only definitions all of whose root entry points are proved at full strength (registry full_roots) can be
    # discharged this way; a change under a search-only clause stays a broken obligation.
    reproved = []
    full_rx = registry.REG.get(pid, {}).get('full_roots', [])
    if broken and full_rx and st.get('driver') and ps['ok'] and not fresh and not os.environ.get('VERIF_NO_REPROVE'):      # (a failing input settles it: no need to re-prove)
        def covered(b):
            rs = [r for r in roots if b in pipeline.closure(gen_defs, [r])] + [r for r in model_roots if b in pipeline.closure(model_defs, [r])]
            return bool(rs) and all(any(re.search(rx, r) for rx in full_rx) for r in rs)
        cand = [b for b in broken if covered(b)]
        if cand:
            log('re-proving %s against the regenerated model (bridge open for %s)' % (pid, ', '.join(cand[:6])))
            proj = pipeline.reprove_project(st)
            ps2 = proof_status(pid, tier, root=proj)
            if ps2['ok']:
                reproved = cand
                ps = dict(ps2, reproved_against_regenerated_model=cand)
                broken = [b for b in broken if b not in cand]
            else:
                ps['reprove_errors'] = ps2['errors']
                print('re-proof against the regenerated model failed: ' + '; '.join(ps2['errors'])[:1500])
    obligations, discharged = 0, 0
    ob_list = []
    for t in ps['theorems']:
        obligations += 1; discharged += 1
        ob_list.append('theorem ' + t['name'])
    for e in ps['errors']:
        obligations += 1
    obligations += len(foot); discharged += len(foot) - len(broken)      # Gen ≡ Model per definition (identical or kernel-bridged)
    obligations += 1; discharged += (0 if (cdiff or no_model) else 1)     # correspondence stream
    obligations += 1; discharged += (0 if untranslated else 1)
    if spec.get('hand_sources'):
        obligations += len(spec['hand_sources']); discharged += len(spec['hand_sources']) - len(hand_changed)
    if spec.get('nostd'):
        obligations += 1; discharged += (0 if cfg_dep else 1)

    violations = []
    if fresh:
        # report the simplest failing case: fewest non-zero hex digits / shortest operands
        def simplicity(f):
            args = f['line'].split()[1:]
            return (f['impl'] == 'bad-op', sum(1 for a in args for ch in a if ch not in '0-'), len(f['line']))
        f = min(fresh, key=simplicity)
        rp = write_replay(pid, st, {'kind': 'oracle', 'clause': f['clause'], 'detail': f['detail'], 'cases': [f['line']], 'impl_answer': f['impl'],
                                    'n_failures': len(fresh), 'clauses': sorted({x['clause'] for x in fresh}), 'seed': seed,
                                    'broken_obligations': broken})
        violations.append('VIOLATION property=%s replay=%s' % (pid, rp))
    elif broken or cdiff or untranslated or cfg_dep or hand_changed or no_model or not ps['ok']:
        what = []
        if broken:
            what.append('bridge: ' + ', '.join('bridge.' + b for b in broken[:8]))
        if cdiff:
            what.append('correspondence(first differing case=%s impl=%s model=%s)' % cdiff[0][1:])
        if untranslated:
            what.append('untranslatable: ' + ', '.join(u['name'] for u in untranslated[:5]))
        if no_model:
            what.append('model: ' + '; '.join(st.get('model_errors', ['no driver']))[:700])
        if hand_changed:
            what.append('hand-modelled source changed (the hand model in TFV/Hand is tied to the text it was written from): ' + ', '.join(hand_changed))
        if cfg_dep:
            what.append('cfg-dependent definitions: ' + ', '.join(cfg_dep[:5]))
        if not ps['ok']:
            what.append('proof: ' + '; '.join(ps['errors'])[:600])
        # behaviour-changing inputs (implementation vs the Model snapshot) are recorded to help triage
        changed_inputs = []
        if broken and st.get('driver') and st['driver'] != st['model_driver']:
            snap = corr.run_parallel([st['model_driver']], cases.lines, 16)[0]
            changed_inputs = [(ln, x, y) for (_, ln, x, y) in corr.diff(cases.lines, impl, snap)[:5]]
        rp = write_replay(pid, st, {'kind': 'obligation', 'obligations': what, 'behaviour_changes_vs_snapshot': changed_inputs, 'seed': seed})
        print('broken obligations: ' + ' | '.join(what))
        violations.append('VIOLATION property=%s replay=%s no-failing-input-found' % (pid, rp))

    # ---- evidence
    distinct = len(set(cases.lines)) + len(set(gen_lines))
    nontriv = len({ln for ln, a in zip(cases.lines, impl) if a not in ('bad-op',)})
    ev = {
        'property_id': pid, 'tier': tier, 'seed': seed, 'level': 'proof',
        'wall_s': round(time.time() - t0, 1), 'violations': len(violations),
        'coverage': {
            'obligations': obligations, 'discharged': discharged,
            'checker_cmd': 'cd /verif/TFV && lake build %s && lake env lean <axiom audit>; bridge: lake env lean Delta.lean; correspondence: harness vs driver' % (ps.get('module') or '(no theorem module)'),
            'trusted_base': registry.TRUSTED_BASE,
            'theorems': ps['theorems'], 'proof_errors': ps['errors'], 'leanchecker': ps.get('leanchecker'),
            'clauses': registry.REG.get(pid, {}).get('clauses', {}),
            'footprint_definitions': len(foot), 'bridged': bridged, 'broken': broken, 'reproved': reproved, 'reprove_errors': ps.get('reprove_errors'),
            'model_vs_source': 'identical' if not (st['changed'] or st['added'] or st['removed']) else 'changed: %s added: %s removed: %s' % (st['changed'][:10], st['added'][:10], st['removed'][:10]),
            'correspondence': {'cases': len(cases.lines) + len(gen_lines), 'differences': len(cdiff), 'entry_points': len(root_ents)},
            'evaluations': len(cases.lines) + len(gen_lines) + extra_eval, 'distinct_nontrivial': min(distinct, nontriv + len(set(gen_lines))),
            'rule': 'cases from the property generator (seeded SplitMix64, strata listed in DESIGN §5) plus generic cases per entry point; distinct = distinct case lines; non-trivial = the implementation produced an answer',
            'oracle_failures': len(fails), 'std_vs_nostd_differences_on_unconstructible_operands': nostd_out_of_domain, 'known_findings_hit': sorted(known_hit), 'corpus_cases': n_corpus,
            'clause_histogram': hist(cases),
            'samples': [{'case': cases.lines[i], 'impl': impl[i], 'model': model[i]} for i in sample_idx(len(cases.lines))],
        },
        'assumptions': registry.ASSUMPTIONS,
    }
    write_evidence(pid, ev)
    for v in violations:
        print(v)
    if not violations:
        print('OK property=%s tier=%s cases=%d theorems=%d footprint=%d wall=%.1fs' % (pid, tier, len(cases.lines) + len(gen_lines), len(ps['theorems']), len(foot), time.time() - t0))
    return 1 if violations else 0

def sample_idx(n):
    if n == 0:
        return []
    return sorted({0, n // 3, (2 * n) // 3, n - 1})

def hist(cases):
    h = {}
    for m in cases.meta:
        k = str(m.get('kind') or m.get('op') or m.get('f') or m.get('clause') or 'case')
        h[k] = h.get(k, 0) + 1
    return h

def do_replay(pid, spec, st, path):
    rp = json.load(open(path))
    if rp.get('kind') != 'oracle':
        print('replay file names broken obligations, no concrete input: %s' % json.dumps(rp.get('obligations') or rp.get('errors')))
        return 1
    lines = rp['cases']
    impl = run_cases1(st, lines)
    model = corr.run_parallel([st['driver']], lines, 1)[0]
    for ln, a, b in zip(lines, impl, model):
        print('case: %s\n  implementation: %s\n  model:          %s\n  recorded:       %s' % (ln, a, b, rp.get('impl_answer')))
    still = impl[0] == rp.get('impl_answer')
    print('clause %s: %s' % (rp['clause'], 'REPRODUCED' if still else 'answer differs from the recorded one (tree changed?)'))
    if still:
        print('VIOLATION property=%s replay=%s' % (pid, path))
    return 1 if still else 0
