"""binary64 helpers: bit patterns, exact values, adversarial generators (all randomness from one PRNG)."""
import struct, math
from fractions import Fraction

MASK64 = (1 << 64) - 1

class Rng:
    """SplitMix64 — every random choice of a run derives from one seed"""
    def __init__(self, seed):
        self.s = seed & MASK64
    def next(self):
        self.s = (self.s + 0x9E3779B97F4A7C15) & MASK64
        z = self.s
        z = ((z ^ (z >> 30)) * 0xBF58476D1CE4E5B9) & MASK64
        z = ((z ^ (z >> 27)) * 0x94D049BB133111EB) & MASK64
        return z ^ (z >> 31)
    def below(self, n):
        return self.next() % n
    def rng(self, lo, hi):  # inclusive
        return lo + self.below(hi - lo + 1)
    def choice(self, xs):
        return xs[self.below(len(xs))]
    def chance(self, num, den):
        return self.below(den) < num

def bits(x: float) -> int:
    return struct.unpack('<Q', struct.pack('<d', x))[0]
def fbits(b: int) -> float:
    return struct.unpack('<d', struct.pack('<Q', b & MASK64))[0]
def hx(x: float) -> str:
    if x != x:
        return '7ff8000000000000'
    return '%016x' % bits(x)
def unhx(s: str) -> float:
    return fbits(int(s, 16))
def f32hx(x: float) -> str:
    return '%08x' % struct.unpack('<I', struct.pack('<f', x))[0]

def isfin(x): return not (math.isinf(x) or math.isnan(x))
def Q(x: float) -> Fraction:
    return Fraction(x)

def ulp(x: float) -> Fraction:
    """unit in the last place of a finite x (spacing of doubles in the binade of |x|)"""
    if x == 0:
        return Fraction(1, 2**1074)
    m, e = math.frexp(abs(x))  # |x| = m 2^e, m in [0.5,1)
    return Fraction(2) ** max(e - 53, -1074)

def rn(q: Fraction) -> float:
    """round to nearest even (CPython's int/int true division is correctly rounded)"""
    try:
        return q.numerator / q.denominator
    except OverflowError:
        return math.inf if q > 0 else -math.inf

def two_sum(a: float, b: float):
    s = a + b
    if not isfin(s):
        return s, 0.0
    e = Q(a) + Q(b) - Q(s)
    return s, rn(e)

def is_valid(hi: float, lo: float) -> bool:
    return isfin(hi) and isfin(lo) and (hi + lo == hi)

# ---------------------------------------------------------------- generators

SPECIAL_BITS = [0x0, 0x8000000000000000, 0x1, 0x8000000000000001, 0x000fffffffffffff, 0x0010000000000000,
                0x7fefffffffffffff, 0xffefffffffffffff, 0x7ff0000000000000, 0xfff0000000000000, 0x7ff8000000000000,
                0x3ff0000000000000, 0xbff0000000000000, 0x3fe0000000000000, 0x4000000000000000, 0x3ff0000000000001,
                0x3fefffffffffffff, 0x4340000000000000, 0x433fffffffffffff, 0x3fd0000000000000, 0x3ff8000000000000]

# literals harvested from definitions whose bridge broke (check.py fills this): operands are drawn at and
# around them so that a changed threshold / constant / table entry is actually exercised by the search
POOL = []

def from_pool(r: Rng):
    x = r.choice(POOL)
    k = r.below(6)
    if k == 0:
        return x
    if k == 1:
        return -x
    if k == 2:
        return math.nextafter(x, math.inf)
    if k == 3:
        return math.nextafter(x, -math.inf)
    if k == 4:
        return x * r.choice([0.5, 2.0, 1.5, 0.75])
    return x + ulp(x) * r.rng(-8, 8) if isfin(x) else x

def any_f64(r: Rng, finite=False) -> float:
    if POOL and r.below(4) == 0:
        x = from_pool(r)
        if isfin(x) or not finite:
            return x
    c = r.below(10)
    if c == 0:
        x = fbits(r.choice(SPECIAL_BITS))
    elif c == 1:
        x = fbits(r.next())
    elif c <= 3:
        # small integers and halves
        x = (r.rng(-64, 64)) / r.choice([1, 2, 4])
    else:
        x = mant_exp(r, r.rng(-1074, 1023))
    if finite and not isfin(x):
        return 1.5
    return x

def mant_exp(r: Rng, e: int, sign=None) -> float:
    """a double in binade e (value in [2^e, 2^(e+1))) with an adversarial mantissa"""
    c = r.below(8)
    if c == 0:
        m = 0
    elif c == 1:
        m = (1 << 52) - 1
    elif c == 2:
        m = 1
    elif c == 3:
        m = 1 << r.below(52)
    elif c == 4:
        m = ((1 << 52) - 1) ^ (1 << r.below(52))
    elif c == 5:
        m = r.next() & ((1 << 52) - 1) & ~((1 << r.below(52)) - 1)   # trailing zeros
    else:
        m = r.next() & ((1 << 52) - 1)
    s = r.below(2) if sign is None else sign
    if e < -1022:
        # subnormal: value m' * 2^-1074 with top bit at e
        k = e + 1074
        mm = (1 << k) | (m & ((1 << k) - 1)) if k > 0 else 1
        return fbits((s << 63) | mm)
    return fbits((s << 63) | ((e + 1023) << 52) | m)

def valid_tf(r: Rng, emin=-1000, emax=1000, allow_zero=True):
    """an adversarial valid (hi, lo) pair with hi = 0 or in [2^emin, 2^emax]"""
    c = r.below(12)
    if c == 0 and allow_zero:
        return (r.choice([0.0, -0.0]), r.choice([0.0, -0.0]))
    emin = max(-1074, min(emin, 1023))
    emax = min(1024, max(emax, emin + 1))
    e = r.rng(emin, emax - 1)
    hi = mant_exp(r, e)
    if r.below(8) == 0:
        # structured high words: (half-/quarter-)integers and their power-of-two multiples — where reductions, parities,
        # tie rules and table look-ups switch
        cand = float(r.rng(-2**r.rng(1, 21), 2**r.rng(1, 21))) / r.choice([1, 1, 2, 2, 4, 8])
        if r.below(3) == 0:
            cand = math.ldexp(cand, r.rng(-60, 60))
        if cand != 0 and Fraction(2) ** emin <= abs(Fraction(cand)) < Fraction(2) ** emax:
            hi = cand
            e = math.frexp(hi)[1] - 1
    if POOL and r.below(4) == 0:
        x = from_pool(r)
        if isfin(x) and x != 0 and Fraction(2) ** emin <= abs(Fraction(x)) < Fraction(2) ** emax:
            hi = x
            e = math.frexp(x)[1] - 1
    u = ulp(hi)
    if c <= 2:
        lo = r.choice([0.0, -0.0])
    elif c == 3:
        # exactly half an ulp (valid only beside an even mantissa; quarter ulp below a power of two)
        lo = rn(u / 2) * r.choice([1, -1])
    elif c == 4:
        lo = rn(u / 4) * r.choice([1, -1])
    elif c == 5:
        # just below half an ulp
        h = rn(u / 2)
        lo = math.nextafter(h, 0.0) * r.choice([1, -1])
    elif c == 6:
        # far below: big gap between the words
        lo = mant_exp(r, max(-1074, e - 53 - r.rng(1, 900)))
    elif c == 7:
        lo = fbits(r.rng(1, 4)) * r.choice([1, -1])      # tiny subnormal low word
    else:
        lo = mant_exp(r, max(-1074, e - 53 - r.rng(0, 3)))
    if POOL and r.below(6) == 0:
        # a harvested literal (or a neighbour) as the LOW word, under a high word far enough above it
        x = from_pool(r)
        if isfin(x) and x != 0:
            ex = math.frexp(x)[1] - 1
            eh = ex + 53 + r.below(3)
            if emin <= eh < emax:
                hi = mant_exp(r, eh)
                if r.below(2):
                    hi = math.ldexp(float(r.rng(2**52, 2**53 - 1)), eh - 52) * r.choice([1, -1])
                lo = x
    # normalise with 2Sum so that the pair is valid whatever was picked
    s, t = two_sum(hi, lo)
    if not is_valid(s, t):
        return (hi, 0.0)
    return (s, t)

def any_tf(r: Rng):
    """valid most of the time, otherwise arbitrary words (NaN/inf/overlapping)"""
    c = r.below(10)
    if c == 0:
        return (any_f64(r), any_f64(r))
    if c == 1:
        return (fbits(r.choice(SPECIAL_BITS)), fbits(r.choice(SPECIAL_BITS)))
    return valid_tf(r, -1074 + 60, 1023)

INT_RANGES = {'i8': (-2**7, 2**7 - 1), 'i16': (-2**15, 2**15 - 1), 'i32': (-2**31, 2**31 - 1), 'i64': (-2**63, 2**63 - 1),
              'i128': (-2**127, 2**127 - 1), 'isize': (-2**63, 2**63 - 1), 'u8': (0, 2**8 - 1), 'u16': (0, 2**16 - 1),
              'u32': (0, 2**32 - 1), 'u64': (0, 2**64 - 1), 'u128': (0, 2**128 - 1), 'usize': (0, 2**64 - 1)}

def any_int(r: Rng, ty: str) -> int:
    lo, hi = INT_RANGES[ty]
    c = r.below(8)
    if c == 0:
        return r.choice([lo, hi, 0, 1, min(hi, 2), max(lo, -1), lo + 1, hi - 1])
    if c == 1:
        return r.rng(max(lo, -40), min(hi, 40))
    if c == 2:
        # near a power of two
        k = r.below(hi.bit_length())
        v = (1 << k) + r.rng(-2, 2)
        v = v if r.below(2) or lo == 0 else -v
        return min(hi, max(lo, v))
    if c == 3:
        # many significant bits: forces rounding of the high word, remainder near ties
        k = r.rng(1, hi.bit_length())
        v = r.next() | (r.next() << 64)
        v &= (1 << k) - 1
        v |= 1 << (k - 1)
        if r.below(2):
            v = (v >> max(0, k - 54)) << max(0, k - 54) | (1 << max(0, k - 55))   # 54-bit prefix + a half-way bit
        v = v if r.below(2) or lo == 0 else -v
        return min(hi, max(lo, v))
    k = r.rng(1, hi.bit_length())
    v = (r.next() | (r.next() << 64)) & ((1 << k) - 1)
    v = v if r.below(2) or lo == 0 else -v
    return min(hi, max(lo, v))
